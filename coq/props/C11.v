(* C11 — trees produced by library transformers print to queries with the same meaning.
   Only statements, short glue, witnesses, non-vacuity examples, Print Assumptions.
   Vocabulary: model/Meaning.v (`sem`, the boolean meaning over atoms = leaves in their field / boost
   context; `tname` / `run_t`, the shipped transformers as data; `c11_verdict`, the executable statement).
   Models (validated by correspondence, imported): Parser.v, Print.v, Traverse.v (copy), Resolver.v,
   OpenRange.v, AutoHeadTail.v.  Lemmas: proofs/MeaningProofs.v.

   Clauses of the property text -> statements
     "for any parsed query, after applying any shipped tree transformer, printing the result and parsing
      it again gives a tree with the same boolean meaning over the same terms, fields, ranges and modifiers
      as the transformed tree"
          C11_statement                         REFUTED, four independent defect classes:
            C11_refuted        (F10)   `x OR y z` resolved to AND prints `x OR y AND z`
            C11_refuted_F10b           `a(b)` resolved prints `aAND (b)`: the operator word fuses with the word
            C11_refuted_F10c           `a b` resolved to BoolOperation prints `a  b`, re-parsed as UnknownOperation
            C11_refuted_F1             `-xT12 :30` copied prints `-xT12:30`, one word (consequence of F1)
          per transformer: C11_for T; refuted for EVERY shipped transformer (C11_every_transformer_refuted)
     default copy            C11_copy_partial   proved under C01's guard (no text dropped / re-spelled by the
                                                parser): the printed copy IS the query and re-parses to the very
                                                same tree;  C11_copy_modulo_lexing: ... or whenever the printed copy
                                                lexes to the query's tokens
     automatic head/tail     C11_aht_modulo_lexing  proved: whenever the printed result lexes to the query's tokens
                             C11_aht_total          never raises on a parsed query
     resolution              C11_resolve_no_unknown_partial  proved: with no implicit operation in the query the
                                                resolver (any target, any add_head) IS the default copy
     resolution (general), open ranges   validated by the correspondence and the oracle only (harness/c11.py),
                             apart from the refutations above
     "same meaning" is well defined   C11_meaning_respects_equality (luqum ==, layout erasure) *)
Require Import Base Decimal Tree TreeEq GenTree Eq EqSpec Print TreeInd GenParser Lexer Actions LR Parser Erase.
Require Import Traverse Resolver OpenRange AutoHeadTail Meaning.
Require Import EqProofs LRProofs LayoutProofs TraverseProofs AutoHeadTailProofs PrettyProofs MeaningProofs C01.
Require Import MeaningResolverProofs.

(* ---------------------------------------------------------------- the statement *)

Definition blank : str := [c_space].        (* the default add_head of both transformers *)

(* the shipped transformers with their options; add_head is a caller-supplied text whose default is one
   blank: the property is stated for the default (other values: harness/c11.py, model correspondence) *)
Inductive shipped : (item -> option item) -> Prop :=
| sh_copy : shipped copy
| sh_aht : shipped aht
| sh_resolve tg : valid_target tg = true -> shipped (resolve tg blank)
| sh_open_range mg : shipped (open_range mg blank)
| sh_resolve_open tg mg : valid_target tg = true ->
    shipped (then_ (resolve tg blank) (open_range mg blank)).

(* str(t') is accepted by the parser and the tree it gives means what t' means *)
Definition reprints_same_meaning (t' : item) : Prop :=
  exists t2, parse (print true t') = Some (Ok t2) /\ forall d v, sem d v t2 = sem d v t'.

Definition C11_for (T : item -> option item) : Prop :=
  forall s t t', parse s = Some (Ok t) -> T t = Some t' -> reprints_same_meaning t'.

Definition C11_statement : Prop :=
  forall s t T t', parse s = Some (Ok t) -> shipped T -> T t = Some t' -> reprints_same_meaning t'.

Lemma C11_statement_for T : shipped T -> C11_statement -> C11_for T.
Proof. intros HT H s t t' Hp Ht. exact (H s t T t' Hp HT Ht). Qed.

(* ---------------------------------------------------------------- refutations *)

(* a computed witness: query, transformer, default operator and a valuation (the atoms that hold) *)
Lemma refute T s t t' t2 d l :
  parse s = Some (Ok t) -> T t = Some t' -> parse (print true t') = Some (Ok t2) ->
  sem d (val_of l) t2 <> sem d (val_of l) t' -> ~ C11_for T.
Proof.
  intros Hp Ht Hp2 Hne H. destruct (H s t t' Hp Ht) as [t2' [Hp2' Hs]].
  rewrite Hp2 in Hp2'. inversion Hp2'; subst. apply Hne. apply Hs.
Qed.

Ltac by_witness s d l :=
  eapply (refute _ s _ _ _ d l); [vm_compute; reflexivity|vm_compute; reflexivity|vm_compute; reflexivity|
                                  vm_compute; discriminate].

Definition w_atom (s : str) : atom := ([], FTerm KWord s).

(* F10: "x OR y z" resolved to AND is And(Or(x,y), z); printed "x OR y AND z" = Or(x, And(y,z));
   they differ when only x holds *)
Definition f10_query : str := [120;32;79;82;32;121;32;122]%N.
Theorem C11_resolve_and_refuted : ~ C11_for (resolve (Some KAnd) blank).
Proof. by_witness f10_query true [w_atom [120]%N]. Qed.

Theorem C11_refuted : ~ C11_statement.
Proof.
  intros H. apply C11_resolve_and_refuted. apply C11_statement_for; [|exact H]. apply sh_resolve. reflexivity.
Qed.

(* the Lucene-like mode resolves it to AND too *)
Theorem C11_resolve_lucene_refuted : ~ C11_for (resolve None blank).
Proof. by_witness f10_query true [w_atom [120]%N]. Qed.

(* F10 through F4: "a AND b -c" is And(a, Unknown(b, -c)); resolved to OR it prints "a AND b OR -c" =
   Or(And(a,b), -c); they differ when nothing holds *)
Definition f10_or_query : str := [97;32;65;78;68;32;98;32;45;99]%N.
Theorem C11_resolve_or_refuted : ~ C11_for (resolve (Some KOr) blank).
Proof. by_witness f10_or_query true (@nil atom). Qed.

(* F10b: "a(b)" resolved to AND is And(a, Group(b)); a blank is added in front of "(b)" but none after "a":
   printed "aAND (b)" = Unknown(Word "aAND", Group(b)); they differ (default OR) when only b holds *)
Definition f10b_query : str := [97;40;98;41]%N.
Theorem C11_refuted_F10b : ~ C11_for (resolve (Some KAnd) blank).
Proof. by_witness f10b_query false [w_atom [98]%N]. Qed.
Theorem C11_refuted_F10b_or : ~ C11_for (resolve (Some KOr) blank).
Proof. by_witness f10b_query true [w_atom [97]%N]. Qed.

(* F10c: "a b" resolved to BoolOperation(a, b) (= a or b) prints "a  b", an implicit operation again:
   under the default operator AND it means a and b; they differ when only a holds *)
Definition f10c_query : str := [97;32;98]%N.
Theorem C11_refuted_F10c : ~ C11_for (resolve (Some KBool) blank).
Proof. by_witness f10c_query true [w_atom [97]%N]. Qed.

(* F1's consequence: "-xT12 :30" is Prohibit(SearchField xT12 (Word 30)); every transformer keeps that tree
   and prints "-xT12:30" (the blank before the colon is dropped by str(), F1), which is ONE word (time
   syntax): Prohibit(Word "xT12:30"); they differ when that word holds *)
Definition f1_query : str := [45;120;84;49;50;32;58;51;48]%N.
Definition f1_word : atom := w_atom [120;84;49;50;58;51;48]%N.
Theorem C11_refuted_F1 : ~ C11_for copy.
Proof. by_witness f1_query true [f1_word]. Qed.
Theorem C11_aht_refuted : ~ C11_for aht.
Proof. by_witness f1_query true [f1_word]. Qed.
Theorem C11_open_range_refuted : forall mg, ~ C11_for (open_range mg blank).
Proof. intros []; by_witness f1_query true [f1_word]. Qed.
Theorem C11_resolve_open_refuted : forall tg mg, valid_target tg = true ->
  ~ C11_for (then_ (resolve tg blank) (open_range mg blank)).
Proof. intros [[]|] [] Hv; try discriminate; by_witness f1_query true [f1_word]. Qed.

(* no shipped transformer satisfies the statement on every parsed query *)
Definition C11_every_transformer_refuted_statement : Prop := forall T, shipped T -> ~ C11_for T.
Theorem C11_every_transformer_refuted : C11_every_transformer_refuted_statement.
Proof.
  intros T HT. destruct HT as [| |tg Hv|mg|tg mg Hv].
  - exact C11_refuted_F1.
  - exact C11_aht_refuted.
  - destruct tg as [[]|]; try discriminate.
    + exact C11_resolve_and_refuted.
    + exact C11_resolve_or_refuted.
    + exact C11_refuted_F10c.
    + exact C11_resolve_lucene_refuted.
  - apply C11_open_range_refuted.
  - apply C11_resolve_open_refuted. exact Hv.
Qed.

(* ---------------------------------------------------------------- what holds: "same meaning" is well defined *)

Definition C11_meaning_respects_equality_statement : Prop :=
  (forall d v a b, item_eqb a b = true -> sem d v a = sem d v b) /\             (* luqum's == *)
  (forall d v a b, Erase.erase a = Erase.erase b -> sem d v a = sem d v b) /\   (* equal up to layout *)
  (forall d v a, sem d v (Erase.erase a) = sem d v a).
Theorem C11_meaning_respects_equality : C11_meaning_respects_equality_statement.
Proof. split; [exact sem_item_eqb|]. split; [exact sem_same_erase|exact sem_erase]. Qed.

(* the truth-table comparison used by the executable statement decides "same meaning" *)
Definition C11_meaning_eqb_correct_statement : Prop :=
  forall a b, meaning_eqb a b = true <-> forall d v, sem d v a = sem d v b.
Theorem C11_meaning_eqb_correct : C11_meaning_eqb_correct_statement.
Proof. exact meaning_eqb_correct. Qed.

(* hence the executable statement is the statement: verdict VSame iff the conclusion of C11 holds of T(t) *)
Definition C11_verdict_is_statement_statement : Prop :=
  forall T t t', run_t T t = Some t' -> (c11_verdict T t = VSame <-> reprints_same_meaning t').
Theorem C11_verdict_is_statement : C11_verdict_is_statement_statement.
Proof.
  intros T t t' Ht. unfold c11_verdict, reprints_same_meaning. rewrite Ht.
  destruct (parse (print true t')) as [[t2|e]|].
  - destruct (meaning_eqb t2 t') eqn:E; split.
    + intros _. exists t2. split; [reflexivity|]. apply meaning_eqb_correct. exact E.
    + reflexivity.
    + discriminate.
    + intros [t3 [H3 Hs]]. inversion H3; subst. apply meaning_eqb_correct in Hs. congruence.
  - split; [discriminate|]. intros [t3 [H3 _]]. discriminate.
  - split; [discriminate|]. intros [t3 [H3 _]]. discriminate.
Qed.

(* ---------------------------------------------------------------- what holds: parsed trees are well formed *)

(* every tree the parser returns satisfies the constructor invariant at every node (any LR tables) *)
Definition C11_parsed_wellformed_statement : Prop :=
  forall tb s t evs, parse_with tb s = Done (Ok t) evs -> all_nodes TraverseProofs.wf_node t.
Theorem C11_parsed_wellformed : C11_parsed_wellformed_statement.
Proof. intros tb s t evs H. apply all_wfb_spec. eapply parse_with_wf. exact H. Qed.

(* ---------------------------------------------------------------- what holds: the default copy *)

(* strong form: under C01's guard the printed copy is the query itself, so it re-parses to the very tree
   that was copied, whose meaning is the copy's *)
Definition C11_copy_partial_statement : Prop :=
  forall s t t', parse s = Some (Ok t) -> no_event s -> copy t = Some t' ->
    print true t' = s /\
    exists t2, parse (print true t') = Some (Ok t2) /\ t2 = t /\ Erase.erase t2 = Erase.erase t /\
               item_eqb t2 t' = true /\ forall d v, sem d v t2 = sem d v t'.
Theorem C11_copy_partial : C11_copy_partial_statement.
Proof.
  intros s t t' Hp Hne Hc.
  destruct (copy_parsed_prints_same s t t' Hp Hc) as [Hpr Heq].
  pose proof (C01_partial s t Hp Hne) as Hs.
  split; [congruence|]. exists t. rewrite Hpr, Hs. repeat split; try assumption; try reflexivity.
  - apply item_eqb_sym. exact Heq.
  - intros d v. apply sem_item_eqb. apply item_eqb_sym. exact Heq.
Qed.

(* the copy never raises *)
Definition C11_copy_total_statement : Prop := forall t, exists t', copy t = Some t'.
Theorem C11_copy_total : C11_copy_total_statement.
Proof. intros t. exists (dcopy t). apply copy_dcopy. Qed.

(* ---------------------------------------------------------------- what holds: modulo lexing *)

(* p lexes to the tokens of s (same types and lexemes; whitespace may differ) *)
Definition same_tokens (p s : str) : Prop :=
  map tok_key (fst (lex s)) = map tok_key (fst (lex p)) /\ (snd (lex s) = None <-> snd (lex p) = None).

(* any tree equal (luqum ==) to the parsed one whose printed form lexes to the query's tokens *)
Definition C11_equal_tree_modulo_lexing_statement : Prop :=
  forall s t t', parse s = Some (Ok t) -> item_eqb t' t = true -> same_tokens (print true t') s ->
    exists t2, parse (print true t') = Some (Ok t2) /\ Erase.erase t2 = Erase.erase t /\
               item_eqb t2 t' = true /\ forall d v, sem d v t2 = sem d v t'.
Theorem C11_equal_tree_modulo_lexing : C11_equal_tree_modulo_lexing_statement.
Proof.
  intros s t t' Hp Heq [Hk He].
  pose proof (parse_layout_independent gen_tables s (print true t') Hk He) as H.
  unfold parse, parse_full in *. destruct (parse_with gen_tables s) as [r1 e1|]; [|discriminate].
  destruct (parse_with gen_tables (print true t')) as [r2 e2|]; [|contradiction]. simpl in H.
  inversion Hp; subst. destruct r2 as [t2|[m|m|n]]; simpl in H; try discriminate.
  exists t2. split; [reflexivity|]. injection H as Her. split; [symmetry; exact Her|].
  assert (E : item_eqb t2 t' = true).
  { eapply item_eqb_trans; [apply same_erase_item_eqb; symmetry; exact Her|apply item_eqb_sym; exact Heq]. }
  split; [exact E|]. intros d v. apply sem_item_eqb. exact E.
Qed.

Definition C11_copy_modulo_lexing_statement : Prop :=
  forall s t t', parse s = Some (Ok t) -> copy t = Some t' -> same_tokens (print true t') s ->
    reprints_same_meaning t'.
Theorem C11_copy_modulo_lexing : C11_copy_modulo_lexing_statement.
Proof.
  intros s t t' Hp Hc Hl. destruct (copy_parsed_prints_same s t t' Hp Hc) as [_ Heq].
  destruct (C11_equal_tree_modulo_lexing s t t' Hp Heq Hl) as [t2 [H1 [_ [_ H2]]]]. exists t2. auto.
Qed.

Definition C11_aht_modulo_lexing_statement : Prop :=
  forall s t t', parse s = Some (Ok t) -> aht t = Some t' -> same_tokens (print true t') s ->
    reprints_same_meaning t'.
Theorem C11_aht_modulo_lexing : C11_aht_modulo_lexing_statement.
Proof.
  intros s t t' Hp Ha Hl. destruct (aht_some t t' Ha) as [_ ->].
  assert (Heq : item_eqb (daht t) t = true).
  { apply daht_eq. eapply all_nodes_impl; [|exact (parse_wf s t Hp)]. intros n Hn. apply (wf_node_stable n Hn). }
  destruct (C11_equal_tree_modulo_lexing s t (daht t) Hp Heq Hl) as [t2 [H1 [_ [_ H2]]]]. exists t2. auto.
Qed.

(* auto_head_tail never raises on a parsed query (it raises IndexError on an AND/OR/Bool operation without
   operand, which the parser never builds) *)
Definition C11_aht_total_statement : Prop := forall s t, parse s = Some (Ok t) -> exists t', aht t = Some t'.

Lemma ops_nonempty_defined : forall t, all_ops_nonempty t = true -> aht_defined t = true.
Proof.
  unfold aht_defined. induction t using item_ind'; intros Hn; rewrite every_node_unfold; simpl in *;
    rewrite ?IHt, ?andb_true_r; auto.
  - apply andb_prop in Hn. destruct Hn as [H1 H2]. rewrite IHt1, IHt2; auto.
  - apply andb_prop in Hn. destruct Hn as [H1 H2].
    apply andb_true_intro. split; [destruct k, ops; simpl in *; congruence|].
    clear H1. induction H as [|c l Hc _ IH]; simpl; [reflexivity|].
    simpl in H2. apply andb_prop in H2. destruct H2 as [H3 H4]. rewrite (Hc H3), (IH H4). reflexivity.
Qed.

Theorem C11_aht_total : C11_aht_total_statement.
Proof.
  intros s t Hp. exists (daht t). rewrite aht_daht, ops_nonempty_defined; [reflexivity|].
  apply (parse_ops_nonempty s). exact Hp.
Qed.

(* ---------------------------------------------------------------- what holds: the resolver with nothing to resolve *)

(* on a query without implicit operation the resolver (every target, the Lucene-like mode, ANY add_head) is the
   default copy, so it satisfies the statement under the copy's guard *)
Definition C11_resolve_no_unknown_partial_statement : Prop :=
  forall s t tg ah t', parse s = Some (Ok t) -> no_event s -> no_unknown t -> valid_target tg = true ->
    resolve tg ah t = Some t' ->
    copy t = Some t' /\ print true t' = s /\ reprints_same_meaning t'.
Theorem C11_resolve_no_unknown_partial : C11_resolve_no_unknown_partial_statement.
Proof.
  intros s t tg ah t' Hp Hne Hnu Hv Hr. rewrite (resolve_no_unknown_is_copy tg ah t Hv Hnu) in Hr.
  destruct (C11_copy_partial s t t' Hp Hne Hr) as [Hs [t2 [H2 [_ [_ [_ Hm]]]]]].
  split; [exact Hr|]. split; [exact Hs|]. exists t2. auto.
Qed.

(* C01.ex_query has explicit operators and an implicit one; "f:(a OR b) AND NOT c~2" has none *)
Definition ex_explicit : str :=
  [102;58;40;97;32;79;82;32;98;41;32;65;78;68;32;78;79;84;32;99;126;50]%N.
Example C11_resolve_no_unknown_nonvacuous :
  no_event ex_explicit /\
  exists t, parse ex_explicit = Some (Ok t) /\ no_unknown t /\ 5 <= size_of t /\
            resolve None blank t = copy t /\ c11_verdict (TResolve (Some KOr) blank) t = VSame.
Proof.
  split; [vm_compute; reflexivity|]. eexists. split; [vm_compute; reflexivity|].
  split; [apply no_unknownb_ok; vm_compute; reflexivity|].
  split; [vm_compute; repeat constructor|]. split; vm_compute; reflexivity.
Qed.

(* ---------------------------------------------------------------- non-vacuity *)

(* the guard of C11_copy_partial holds of a query using most productions (C01.ex_query) and the conclusion
   is about a real, non-trivial copy *)
Example C11_copy_nonvacuous :
  no_event ex_query /\
  exists t t', parse ex_query = Some (Ok t) /\ copy t = Some t' /\ print true t' = ex_query /\
               c11_verdict TCopy t = VSame /\ length (atoms t') = 5.
Proof.
  split; [vm_compute; reflexivity|]. eexists. eexists.
  split; [vm_compute; reflexivity|]. split; [vm_compute; reflexivity|].
  split; [vm_compute; reflexivity|]. split; [vm_compute; reflexivity|]. vm_compute. reflexivity.
Qed.

(* the witnesses are outside the guards: F1's query has a ghost event, and its printed copy does not lex to
   the query's tokens *)
Example C11_witness_outside_guards :
  ~ no_event f1_query /\
  exists t t', parse f1_query = Some (Ok t) /\ copy t = Some t' /\ ~ same_tokens (print true t') f1_query.
Proof.
  split; [intros H; vm_compute in H; discriminate|]. eexists. eexists.
  split; [vm_compute; reflexivity|]. split; [vm_compute; reflexivity|].
  intros [H _]. vm_compute in H. discriminate.
Qed.

(* auto_head_tail really adds blanks and the hypothesis of C11_aht_modulo_lexing holds:
   "(a)AND(b OR c)" becomes "(a) AND (b OR c)" *)
Definition ex_tight : str := [40;97;41;65;78;68;40;98;32;79;82;32;99;41]%N.
Example C11_aht_nonvacuous :
  exists t t', parse ex_tight = Some (Ok t) /\ aht t = Some t' /\
               print true t' = [40;97;41;32;65;78;68;32;40;98;32;79;82;32;99;41]%N /\
               same_tokens (print true t') ex_tight /\ c11_verdict TAht t = VSame.
Proof.
  eexists. eexists. split; [vm_compute; reflexivity|]. split; [vm_compute; reflexivity|].
  split; [vm_compute; reflexivity|]. split; [|vm_compute; reflexivity].
  split; [vm_compute; reflexivity|]. split; intros _; vm_compute; reflexivity.
Qed.

(* the statement's conclusion does hold on ordinary inputs of the other transformers (executable statement) *)
Definition verdict_of (T : tname) (s : str) : option verdict :=
  match parse s with Some (Ok t) => Some (c11_verdict T t) | _ => None end.
Example C11_holds_on_ordinary_inputs :
  (* "a b c" resolved to AND: "a AND b AND c" *)
  verdict_of (TResolve (Some KAnd) blank) [97;32;98;32;99]%N = Some VSame /\
  (* "(x OR y) z" resolved (Lucene mode) *)
  verdict_of (TResolve None blank) [40;120;32;79;82;32;121;41;32;122]%N = Some VSame /\
  (* "f:>=1 AND f:<5" opened and merged *)
  verdict_of (TOpenRange true blank) [102;58;62;61;49;32;65;78;68;32;102;58;60;53]%N = Some VSame /\
  (* ">=1 <5" resolved to AND, then opened and merged: "[1 TO 5}" *)
  verdict_of (TResolveOpen (Some KAnd) true blank) [62;61;49;32;60;53]%N = Some VSame /\
  (* and fails on the witnesses *)
  verdict_of (TResolve (Some KAnd) blank) f10_query = Some VDiffer /\
  verdict_of (TResolve (Some KAnd) blank) f10b_query = Some VDiffer /\
  verdict_of (TResolve (Some KBool) blank) f10c_query = Some VDiffer /\
  verdict_of TCopy f1_query = Some VDiffer.
Proof. vm_compute. repeat split. Qed.

Example C11_shipped_run_t :
  shipped (run_t TCopy) /\ shipped (run_t TAht) /\ shipped (run_t (TResolve None blank)) /\
  shipped (run_t (TOpenRange true blank)) /\ shipped (run_t (TResolveOpen (Some KOr) false blank)).
Proof.
  repeat split; simpl; try constructor; reflexivity.
Qed.

Print Assumptions C11_refuted.
Print Assumptions C11_resolve_and_refuted.
Print Assumptions C11_resolve_lucene_refuted.
Print Assumptions C11_resolve_or_refuted.
Print Assumptions C11_refuted_F10b.
Print Assumptions C11_refuted_F10b_or.
Print Assumptions C11_refuted_F10c.
Print Assumptions C11_refuted_F1.
Print Assumptions C11_aht_refuted.
Print Assumptions C11_open_range_refuted.
Print Assumptions C11_resolve_open_refuted.
Print Assumptions C11_every_transformer_refuted.
Print Assumptions C11_meaning_respects_equality.
Print Assumptions C11_meaning_eqb_correct.
Print Assumptions C11_verdict_is_statement.
Print Assumptions C11_parsed_wellformed.
Print Assumptions C11_copy_partial.
Print Assumptions C11_copy_total.
Print Assumptions C11_resolve_no_unknown_partial.
Print Assumptions C11_equal_tree_modulo_lexing.
Print Assumptions C11_copy_modulo_lexing.
Print Assumptions C11_aht_modulo_lexing.
Print Assumptions C11_aht_total.
