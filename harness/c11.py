"""C11 — trees produced by the library transformers print to queries with the same meaning:
parser.parse(str(T(tree))) means what T(tree) means (truth tables over the atoms, both default operators),
for every parsed query and every shipped transformer (default copy, auto_head_tail, UnknownOperationResolver x 4
targets, OpenRangeTransformer x merge, resolve-then-open_range)."""
import itertools
import random
import time
from decimal import Decimal

import lib
import gentree
import parsegen as PG
from runner import CorrResult  # noqa: F401

CORPUS = [
    # one witness per finding class first, and plain neighbours 
    "x OR y z", "a AND b -c", "a(b)", "a b", "a +b", "-xT12 :30", ">=1 <5", "[1 TO *] AND [* TO 5]", "(a)AND(b OR c)", "f:(a b) c",
    # F10: the inserted operator is captured by / captures a neighbouring operator
    "x OR y z", "a OR b c AND d e", "a OR b c", "x OR y (z)", "a AND b -c", "a OR b +c", "a AND b TO", "f:(x OR y z)",
    "(x OR y z) w", "NOT a OR b c",
    # groups inside groups: which "level" the Lucene-like mode remembers the last operator for
    "(x OR (a OR b c))", "x OR (a OR b c)", "f:(x OR (a OR b c))", "(x AND (a b))", "(x OR (a b))", "((a OR b) c OR (d e))",
    "x OR (y (a OR b c))", "NOT (x OR (a b))",
    # harmless neighbours of F10
    "a AND b c", "(x OR y) z", "a OR b -c", "x y OR z", "a b c", "a b", "a", "x AND y z AND w", "a OR b OR c d",
    # F10b: operands that touch: no blank is added AFTER the left operand
    "a(b)", "a[1 TO 2]", "a\"b c\"", "f:a(b)", "a{1 TO 2}x", "a~2(b)", "1(b OR c)", ">=1(b)", "a\\(b)",
    # harmless neighbours of F10b
    "(a)(b)", "\"a\"(b)", "a (b)", "(a)b", "[1 TO 2]a", "a^2(b)", "/r/(b)", "a~(b)", "\"a\"~2(b)",
    # F10c: BoolOperation has no syntax of its own
    "a +b", "+a -b", "a b -c", "+a +b",
    # F1's consequence: the dropped blank before a colon fuses the field into a time-like word
    "-xT12 :30", "xT12 :30", "NOT T12 :30", "(xT12 :30)^2", "+f:T12 :30", "xT12 :30 a", "a xT12 :30",
    "xT12 : 30", "xT1 :30", "f :a", "f : a b", "f :(a b)",          # harmless: F1 drops the blank, nothing fuses
    # open ranges
    ">=a", "<a", ">a", "<=a", "f:>=1", ">= a", "<\n5", ">=\"x y\"", "f:<2024-01-01", "NOT >=1", "-<5", "+>1", ">=1^2",
    ">=1 <5", ">=1 AND <5", "<5 AND >=1", "f:>=1 AND f:<5", "[1 TO *] AND [* TO 5]", "[1 TO *]AND[* TO 5]",
    "[a TO *] AND [b TO *] AND [* TO y] AND [* TO z]", "{1 TO *] AND x AND [* TO 5} AND y", "[* TO 3] AND [4 TO *]",
    "[1 TO *] OR [* TO 5]", "[1 TO *] [* TO 5]", "(>=1 AND <5)^2", "[* TO *] AND >=1", ">=* AND <5", "[1 TO *]^2 AND [* TO 5]^2",
    ">=1 AND <=2 AND >=3 AND <=4", "x AND >=1 AND y AND <5 AND z", "[ 1  TO  * ]  AND  [ *  TO  5 ]", ">=1\tAND\n<5",
    "f:[1 TO *] AND g:[* TO 5]", ">=-1", "[-1 TO *] AND [* TO -5]",
    # layout, groups, fields, modifiers
    "(a)AND(b OR c)", " a ", "\ta AND\tb ", "a\n\nAND\n\nb", "NOT\na", "a\n~2", "f:\na", "(\na\n)", "f:(a b)", "f:(a AND (b OR c))",
    "f:a g:b", "a.b:c", "f:\"x y\"~2^3", "f:/re/", "a~2 b~ \"c d\"~3", "[-1 TO \"x y\"]", "a^2 b^0.5", "(a b)^2 c", "a~0.50 a~0.5",
    "((a b) (c d)) e", "a -b +c", "NOT a b", "a AND NOT b c", "+(a b) -(c d)", "\\AND b", "a\\ b c", "TO", "a TO b", "a && b || c d",
    "a OR b AND c OR d e", " AND ".join("(x%d OR y%d)" % (i, i) for i in range(6)), " ".join("t%d" % i for i in range(12)),
]
ADD_HEADS_EXTRA = ["", "\n"]       # caller-supplied add_head values: model correspondence only


# ------------------------------------------------------------------ the meaning (Python oracle; mirrors Meaning.v)

def _num(d):
    d = Decimal(d)
    return str(d.normalize() + 0) if d == d else "nan"


def fp(T, n):
    """layout-free fingerprint of a subtree (class, values, flags, numeric degrees, children)"""
    k = type(n).__name__
    if isinstance(n, T.Term):
        return (k, n.value)
    if isinstance(n, T.SearchField):
        return (k, n.name, fp(T, n.expr))
    if isinstance(n, T.BaseGroup):
        return (k, fp(T, n.expr))
    if isinstance(n, T.Range):
        return (k, bool(n.include_low), bool(n.include_high), fp(T, n.low), fp(T, n.high))
    if isinstance(n, T.Fuzzy):
        return (k, _num(n.degree), fp(T, n.term))
    if isinstance(n, T.Proximity):
        return (k, int(n.degree), fp(T, n.term))
    if isinstance(n, T.Boost):
        return (k, _num(n.force), fp(T, n.expr))
    if isinstance(n, T.BaseOperation):
        return (k,) + tuple(fp(T, c) for c in n.children)
    if isinstance(n, (T.Plus, T.Not, T.Prohibit)):
        return (k, fp(T, n.a))
    if isinstance(n, (T.From, T.To)):
        return (k, bool(n.include), fp(T, n.a))
    if isinstance(n, T.NoneItem):
        return (k,)
    raise lib.Unmodelled(k)


def atoms(T, n, ctx, out):
    if isinstance(n, T.SearchField):
        atoms(T, n.expr, ctx + (("field", n.name),), out)
    elif isinstance(n, T.Boost):
        atoms(T, n.expr, ctx + (("boost", _num(n.force)),), out)
    elif isinstance(n, (T.BaseGroup, T.Plus, T.Not, T.Prohibit)):
        atoms(T, n.children[0], ctx, out)
    elif isinstance(n, T.BaseOperation):
        for c in n.children:
            atoms(T, c, ctx, out)
    else:
        out.setdefault((ctx, fp(T, n)), len(out))


def sem(T, d, v, n, ctx=(), bool_as_unknown=False):
    rec = lambda c, cx=ctx: sem(T, d, v, c, cx, bool_as_unknown)  # noqa: E731
    if isinstance(n, T.SearchField):
        return rec(n.expr, ctx + (("field", n.name),))
    if isinstance(n, T.Boost):
        return rec(n.expr, ctx + (("boost", _num(n.force)),))
    if isinstance(n, (T.BaseGroup, T.Plus)):
        return rec(n.children[0])
    if isinstance(n, (T.Not, T.Prohibit)):
        return not rec(n.a)
    if isinstance(n, T.AndOperation):
        return all(rec(c) for c in n.children)
    if isinstance(n, T.OrOperation):
        return any(rec(c) for c in n.children)
    if isinstance(n, T.UnknownOperation) or (bool_as_unknown and isinstance(n, T.BoolOperation)):
        return all(rec(c) for c in n.children) if d else any(rec(c) for c in n.children)
    if isinstance(n, T.BoolOperation):
        plus = [c for c in n.children if isinstance(c, T.Plus)]
        signed = [c for c in n.children if isinstance(c, (T.Plus, T.Prohibit))]
        plain = [c for c in n.children if not isinstance(c, (T.Plus, T.Prohibit))]
        if not all(rec(c) for c in signed):
            return False
        if plain and not plus:
            return any(rec(c) for c in plain)
        return True
    return v[(ctx, fp(T, n))]


def same_meaning(T, a, b, bool_as_unknown=False):
    """(same?, number of atoms, exhaustive?, witness)"""
    at = {}
    atoms(T, a, (), at)
    atoms(T, b, (), at)
    keys = list(at)
    exhaustive = len(keys) <= 10
    if exhaustive:
        rows = itertools.product([False, True], repeat=len(keys))
    else:
        rr = random.Random(len(keys))
        rows = [[rr.random() < 0.5 for _ in keys] for _ in range(1024)]
    for row in rows:
        v = dict(zip(keys, row))
        for d in (True, False):
            if sem(T, d, v, a, (), bool_as_unknown) != sem(T, d, v, b, (), bool_as_unknown):
                return False, len(keys), exhaustive, {"default_and": d, "true_atoms": [repr(k) for k in keys if v[k]]}
    return True, len(keys), exhaustive, None


# ------------------------------------------------------------------ end to end w.r.t. the INPUT (props/C11m.v)
# The theorems C11_resolve_end_to_end / C11_resolve_default_end_to_end / C11_openrange_end_to_end /
# C11_transformers_end_to_end relate the RE-PARSED tree t2 to the INPUT tree: t2 means what the input means with
# (resolver) each implicit operation read as the operation found at its place in the resolver's output, (open ranges)
# each comparison read as the one-sided range it abbreviates, and for merging only over the RANGE-RESPECTING valuations
# (a range atom = condition on its lower bound and condition on its upper bound, `*` no condition).  Mirrors
# coq/proofs/MeaningLinkProofs.v: read_as (chosen t'), canon, range_respecting.

def is_star(T, b):
    return type(b) is T.Word and b.value == "*"


def rebuilt(n, kids):
    new = n.clone_item()
    new.children = kids
    return new


def relabel(T, n, r):
    """the input n in which each UnknownOperation is the operation found at the same place in the resolver's output r"""
    if len(n.children) != len(r.children):
        raise ValueError("the resolver's output has another shape than its input")
    kids = [relabel(T, c, rc) for c, rc in zip(n.children, r.children)]
    if isinstance(n, T.UnknownOperation):
        if type(r) not in (T.AndOperation, T.OrOperation, T.BoolOperation):
            raise ValueError("an implicit operation was not resolved to AND / OR / Bool")
        return type(r)(*kids)
    return rebuilt(n, kids)


def canon_tree(T, n):
    """the input with every comparison replaced by the one-sided range it abbreviates"""
    kids = [canon_tree(T, c) for c in n.children]
    if isinstance(n, T.From):
        return T.Range(kids[0], T.Word("*"), include_low=bool(n.include), include_high=True)
    if isinstance(n, T.To):
        return T.Range(T.Word("*"), kids[0], include_low=True, include_high=bool(n.include))
    return rebuilt(n, kids)


def rr_keys(T, n, ctx, out):
    """atoms, where a range contributes its two half conditions (none for `*`)"""
    if isinstance(n, T.SearchField):
        rr_keys(T, n.expr, ctx + (("field", n.name),), out)
    elif isinstance(n, T.Boost):
        rr_keys(T, n.expr, ctx + (("boost", _num(n.force)),), out)
    elif isinstance(n, (T.BaseGroup, T.Plus, T.Not, T.Prohibit)):
        rr_keys(T, n.children[0], ctx, out)
    elif isinstance(n, T.BaseOperation):
        for c in n.children:
            rr_keys(T, c, ctx, out)
    elif type(n) is T.Range:
        if not is_star(T, n.low):
            out.setdefault(("L", ctx, bool(n.include_low), fp(T, n.low)), len(out))
        if not is_star(T, n.high):
            out.setdefault(("H", ctx, bool(n.include_high), fp(T, n.high)), len(out))
    else:
        out.setdefault((ctx, fp(T, n)), len(out))


def sem_rr(T, d, w, n, ctx=()):
    """`sem` under the range-respecting valuation given by w on half conditions and on the other atoms"""
    rec = lambda c, cx=ctx: sem_rr(T, d, w, c, cx)  # noqa: E731
    if isinstance(n, T.SearchField):
        return rec(n.expr, ctx + (("field", n.name),))
    if isinstance(n, T.Boost):
        return rec(n.expr, ctx + (("boost", _num(n.force)),))
    if isinstance(n, (T.BaseGroup, T.Plus)):
        return rec(n.children[0])
    if isinstance(n, (T.Not, T.Prohibit)):
        return not rec(n.a)
    if isinstance(n, T.AndOperation):
        return all(rec(c) for c in n.children)
    if isinstance(n, T.OrOperation):
        return any(rec(c) for c in n.children)
    if isinstance(n, T.UnknownOperation):
        return all(rec(c) for c in n.children) if d else any(rec(c) for c in n.children)
    if isinstance(n, T.BoolOperation):
        plus = [c for c in n.children if isinstance(c, T.Plus)]
        signed = [c for c in n.children if isinstance(c, (T.Plus, T.Prohibit))]
        plain = [c for c in n.children if not isinstance(c, (T.Plus, T.Prohibit))]
        if not all(rec(c) for c in signed):
            return False
        if plain and not plus:
            return any(rec(c) for c in plain)
        return True
    if type(n) is T.Range:
        ok = True
        if not is_star(T, n.low):
            ok = ok and w[("L", ctx, bool(n.include_low), fp(T, n.low))]
        if not is_star(T, n.high):
            ok = ok and w[("H", ctx, bool(n.include_high), fp(T, n.high))]
        return ok
    return w[(ctx, fp(T, n))]


def linked_meaning(T, t2, exp, rr, same_default, exp_default=None):
    """t2 (re-parsed) against the expected reading exp of the input, for every valuation (rr: every range-respecting
    one) and both default operators; same_default: exp is read with the default operator t2 is read with (copy,
    auto_head_tail, open ranges); otherwise exp holds no implicit operation (or is read with exp_default) and
    every default on t2 must give that one meaning"""
    keys = {}
    if rr:
        rr_keys(T, t2, (), keys)
        rr_keys(T, exp, (), keys)
        ev = lambda d, v, n: sem_rr(T, d, v, n)  # noqa: E731
    else:
        atoms(T, t2, (), keys)
        atoms(T, exp, (), keys)
        ev = lambda d, v, n: sem(T, d, v, n)  # noqa: E731
    ks = list(keys)
    if len(ks) <= 10:
        rows = itertools.product([False, True], repeat=len(ks))
    else:
        rr_ = random.Random(len(ks) + 7)
        rows = [[rr_.random() < 0.5 for _ in ks] for _ in range(512)]
    for row in rows:
        v = dict(zip(ks, row))
        for d in (True, False):
            a = ev(d, v, t2)
            if same_default:
                bs = [ev(d, v, exp)]
            elif exp_default is not None:
                bs = [ev(exp_default, v, exp)]
            else:
                bs = [ev(True, v, exp), ev(False, v, exp)]
            if any(a != b for b in bs):
                return False, {"default_and": d, "true_atoms": [repr(k) for k in ks if v[k]]}
    return True, None


def end_to_end(T, name, opts, tree, t2):
    """(holds?, why / witness) of the end-to-end link of props/C11m.v on the implementation"""
    from luqum.utils import UnknownOperationResolver as R
    tgs = {"none": None, "and": T.AndOperation, "or": T.OrOperation, "bool": T.BoolOperation}
    exp, resolves = tree, name in ("resolve", "resolve_then_open_range")
    if resolves:
        r1 = R(tgs[opts["resolve_to"]], add_head=opts["add_head"])(tree)
        exp = relabel(T, tree, r1)
        want = tgs[opts["resolve_to"]]
        for (_, a), (_, b) in zip(gentree.all_nodes(tree), gentree.all_nodes(r1)):
            if isinstance(a, T.UnknownOperation) and not (type(b) is want if want is not None else
                                                          type(b) in (T.AndOperation, T.OrOperation)):
                return False, "an implicit operation was resolved to %s" % type(b).__name__
        if name == "resolve" and opts["resolve_to"] in ("and", "or"):
            # C11_resolve_default_end_to_end: Meaning.v's own reading of the input under the default AND / OR
            ok, wit = linked_meaning(T, t2, tree, False, False, exp_default=opts["resolve_to"] == "and")
            if not ok:
                return False, dict(wit, against="the input read with the target as default operator")
    if name in ("open_range", "resolve_then_open_range"):
        exp = canon_tree(T, exp)
    ok, wit = linked_meaning(T, t2, exp, bool(opts.get("merge_ranges")), not resolves)
    return ok, (None if ok else dict(wit, expected=repr(exp)[:400]))


# ------------------------------------------------------------------ transformers

def transformers(T):
    from luqum.utils import UnknownOperationResolver as R, OpenRangeTransformer as O
    from luqum.auto_head_tail import auto_head_tail
    from luqum.visitor import TreeTransformer
    tgs = [("none", None, "None"), ("and", T.AndOperation, "(Some KAnd)"), ("or", T.OrOperation, "(Some KOr)"),
           ("bool", T.BoolOperation, "(Some KBool)")]
    out = [("copy", {}, lambda t: TreeTransformer().visit(t), "TCopy", True),
           ("auto_head_tail", {}, auto_head_tail, "TAht", True)]
    for ah in [" "] + ADD_HEADS_EXTRA:
        shipped = ah == " "
        for nm, cl, g in tgs:
            out.append(("resolve", {"resolve_to": nm, "add_head": ah},
                        (lambda cl, ah: lambda t: R(cl, add_head=ah)(t))(cl, ah),
                        "(TResolve %s %s)" % (g, lib.g_str(ah)), shipped))
        for mg in (False, True):
            out.append(("open_range", {"merge_ranges": mg, "add_head": ah},
                        (lambda mg, ah: lambda t: O(merge_ranges=mg, add_head=ah)(t))(mg, ah),
                        "(TOpenRange %s %s)" % (lib.g_bool(mg), lib.g_str(ah)), shipped))
        for nm, cl, g in tgs:
            for mg in (False, True):
                out.append(("resolve_then_open_range", {"resolve_to": nm, "merge_ranges": mg, "add_head": ah},
                            (lambda cl, mg, ah: lambda t: O(merge_ranges=mg, add_head=ah)(R(cl, add_head=ah)(t)))(cl, mg, ah),
                            "(TResolveOpen %s %s %s)" % (g, lib.g_bool(mg), lib.g_str(ah)), shipped))
    return out


# ------------------------------------------------------------------ known findings: executable predicates
# Each predicate is a function of the INPUT (query string + transformer and options): it parses the query, applies
# the transformer and looks at the transformed tree t1 (never at the re-parsed one, except F10c's confirmation).

def lex_tokens(s):
    from luqum.parser import lexer
    lx = lexer.clone()
    lx.input(s)
    out = []
    try:
        while True:
            t = lx.token()
            if t is None:
                break
            v = t.value
            out.append((t.type, v if isinstance(v, str) else getattr(v, "value", None)))
    except Exception as e:  # an illegal character
        out.append(("ERROR", str(e)))
    return out


def fused_field(T, t1):
    """F1's consequence: a SearchField whose printed `name:expr` does not start with the TERM `name` (it can only
    come from a query with a blank before the colon, which str() drops: F1; `xT12:30` is then one time-like word)"""
    for _, n in gentree.all_nodes(t1):
        if isinstance(n, T.SearchField):
            tk = lex_tokens(n.name + ":" + n.expr.__str__(head_tail=True))
            if not tk or tk[0][0] != "TERM" or tk[0][1] != n.name:
                return True
    return False


def operator_fuses(T, t1):
    """F10b: an AND / OR operation has a non-last operand whose printed text followed by the bare operator word
    does not lex to `tokens of the operand, then the operator` (the resolver puts add_head in front of the next
    operand but nothing after the previous one; operands that touched in the query now touch the operator)"""
    want = {"AND": "AND_OP", "OR": "OR_OP"}
    for _, n in gentree.all_nodes(t1):
        if isinstance(n, (T.AndOperation, T.OrOperation)):
            for c in n.children[:-1]:
                s = c.__str__(head_tail=True)
                if lex_tokens(s + n.op) != lex_tokens(s) + [(want[n.op], n.op)]:
                    return True
    return False


def and_over_or(T, t1):
    """F10: an AndOperation has an OrOperation as a direct operand (no group in between): printed without
    parentheses, AND binds tighter than OR and the operands are re-associated"""
    return any(isinstance(n, T.AndOperation) and any(isinstance(c, T.OrOperation) for c in n.children)
               for _, n in gentree.all_nodes(t1))


def bool_only(T, t1, t2):
    """F10c: the transformed tree has a BoolOperation (printed like an implicit operation) and the re-parsed
    tree means exactly what the transformed tree means once its BoolOperations are read as implicit operations"""
    if not any(isinstance(n, T.BoolOperation) for _, n in gentree.all_nodes(t1)) or t2 is None:
        return False
    return same_meaning(T, t2, t1, bool_as_unknown=True)[0]


def field_fuses(T, n):
    tk = lex_tokens(n.name + ":" + n.expr.__str__(head_tail=True))
    return not tk or tk[0][0] != "TERM" or tk[0][1] != n.name


def operand_fuses(op, c):
    s = c.__str__(head_tail=True)
    return lex_tokens(s + op) != lex_tokens(s) + [({"AND": "AND_OP", "OR": "OR_OP"}[op], op)]


def repaired(T, t1):
    """the transformed tree with the known defects repaired by hand: parentheses around an OR operation that is a
    direct operand of an AND operation (F10), a blank after an operand that would fuse with the operator word
    (F10b), a blank after the colon of a field that would fuse with its value (F1).  Meaning-preserving edits."""
    import copy
    t = copy.deepcopy(t1)

    def fix(n):
        for c in n.children:
            fix(c)
        if isinstance(n, T.SearchField) and field_fuses(T, n):
            n.expr.head = " " + n.expr.head
        if isinstance(n, T.AndOperation) and any(isinstance(c, T.OrOperation) for c in n.children):
            n.children = [T.Group(c) if isinstance(c, T.OrOperation) else c for c in n.children]
        if isinstance(n, (T.AndOperation, T.OrOperation)):
            for c in n.children[:-1]:
                if operand_fuses(n.op, c):
                    c.tail = c.tail + " "
    fix(t)
    return t


def classify(T, t1, t2, parse):
    """the finding class of a failing (query, transformer), or None.  A class is returned only if the failure is
    ENTIRELY explained by the known classes: after repairing them by hand (see `repaired`; BoolOperations read as
    implicit operations, F10c) the printed tree re-parses to a tree with the same meaning.  Anything else that
    goes wrong on the same input therefore still surfaces as a violation."""
    fix = repaired(T, t1)
    kind, t2f = PG.impl_parse(fix.__str__(head_tail=True), parse)
    if kind != "ok" or t2f is None or not same_meaning(T, t2f, fix, bool_as_unknown=True)[0]:
        return None
    if fused_field(T, t1):
        return "F1"
    if operator_fuses(T, t1):
        return "F10b"
    if and_over_or(T, t1):
        return "F10"
    if bool_only(T, t1, t2):
        return "F10c"
    return None


# ------------------------------------------------------------------ reuse histories (instance state)

def reusable(T):
    """(name, options, make_reused, make_fresh): make_reused() is called ONCE per history (for auto_head_tail it
    returns the module-level singleton), make_fresh() before every comparison"""
    from luqum.utils import UnknownOperationResolver as R, OpenRangeTransformer as O
    import luqum.auto_head_tail as AHT
    from luqum.visitor import TreeTransformer
    out = []
    for nm, cl in (("none", None), ("and", T.AndOperation), ("or", T.OrOperation), ("bool", T.BoolOperation)):
        out.append(("resolve", {"resolve_to": nm}, (lambda cl: lambda: R(cl))(cl), (lambda cl: lambda: R(cl))(cl)))
    for mg in (False, True):
        out.append(("open_range", {"merge_ranges": mg}, (lambda mg: lambda: O(merge_ranges=mg))(mg),
                    (lambda mg: lambda: O(merge_ranges=mg))(mg)))
    # instances built with OTHER settings and re-configured through their public attributes before use
    def reconf_r(cl):
        x = R(T.OrOperation if cl is not T.OrOperation else T.AndOperation, add_head="")
        x.resolve_to, x.add_head = cl, " "
        return x

    def reconf_o(mg):
        x = O(merge_ranges=not mg, add_head="")
        x.merge_ranges, x.add_head = mg, " "
        return x
    for nm, cl in (("none", None), ("and", T.AndOperation), ("or", T.OrOperation), ("bool", T.BoolOperation)):
        out.append(("resolve (re-configured after construction)", {"resolve_to": nm},
                    (lambda cl: lambda: reconf_r(cl))(cl), (lambda cl: lambda: R(cl))(cl)))
    for mg in (False, True):
        out.append(("open_range (re-configured after construction)", {"merge_ranges": mg},
                    (lambda mg: lambda: reconf_o(mg))(mg), (lambda mg: lambda: O(merge_ranges=mg))(mg)))
    out.append(("auto_head_tail (module-level singleton)", {}, lambda: AHT.auto_head_tail, lambda: AHT.AutoHeadTail()))
    out.append(("copy", {}, lambda: TreeTransformer().visit, lambda: TreeTransformer().visit))
    return out


def edit_in_place(T, r, tree):
    """a small in-place edit that keeps the printed form lexically safe; returns its description"""
    import re
    nodes = [n for _, n in gentree.all_nodes(tree)]
    words = [n for n in nodes if type(n) is T.Word and re.fullmatch(r"[a-z][a-z0-9]*", n.value)]
    ranges = [n for n in nodes if type(n) is T.Range]
    choice = r.choice(["word", "word", "range", "head"])
    if choice == "word" and words:
        n = r.choice(words)
        old = n.value
        n.value = old + "q"
        return "Word(%r).value = %r" % (old, n.value)
    if choice == "range" and ranges:
        n = r.choice(ranges)
        n.include_low = not n.include_low
        return "Range.include_low = %r" % n.include_low
    tree.head = " " + tree.head
    return "root.head = ' ' + root.head"


def snapshot(tree):
    try:
        return lib.g_item(tree)
    except lib.Unmodelled:
        return repr(tree) + tree.__str__(head_tail=True)


def reuse_histories(T, parse, r, pool, n_hist, res, dist):
    """one instance of each shipped transformer applied to 2-6 parsed queries in a row, then to the same tree object
    again after an in-place edit (once or twice); every result must be what a FRESH instance returns for the tree as
    it is at that moment (lib.g_item text), and is judged by the print -> re-parse -> meaning oracle"""
    for name, opts, make_reused, make_fresh in reusable(T):
        for _ in range(n_hist):
            inst = make_reused()
            steps = []
            queries = [r.choice(pool) for _ in range(r.randrange(2, 7))]
            tree = None
            plan = [("parse", q) for q in queries] + [("edit", None)] * r.randrange(1, 3)
            if r.random() < 0.5:          # come back to an earlier query text (a new, equal tree object)
                plan.append(("parse", queries[0]))
            for idx, (what, q) in enumerate(plan):
                if what == "parse":
                    tree = parse(q)
                    steps.append({"query": q})
                else:
                    steps.append({"edit_in_place": edit_in_place(T, r, tree)})
                payload = {"history": list(steps), "index": idx, "transformer": name, "options": opts,
                           "reused_instance": True}
                dist["reuse_steps"] += 1
                try:
                    got = inst(tree)
                    got_s = snapshot(got)
                except Exception as e:
                    got, got_s = None, "raised " + repr(e)
                try:
                    want = make_fresh()(tree)
                    want_s = snapshot(want)
                except Exception as e:
                    want, want_s = None, "raised " + repr(e)
                if got_s != want_s:
                    dist["reuse_mismatches"] += 1
                    res.failures.append((dict(payload, why="a reused transformer instance does not return what a fresh "
                                              "instance returns for the tree as it is now",
                                              reused=(got.__str__(head_tail=True) if got is not None else got_s)[:300],
                                              fresh=(want.__str__(head_tail=True) if want is not None else want_s)[:300]),
                                         None))
                if got is None:
                    continue
                pr = got.__str__(head_tail=True)
                k2, t2 = PG.impl_parse(pr, parse)
                ok = k2 == "ok" and t2 is not None and same_meaning(T, t2, got)[0]
                if not ok:
                    t2 = t2 if k2 == "ok" else None
                    fid = classify(T, got, t2, parse)
                    dist["reuse_finding_class"][str(fid)] = dist["reuse_finding_class"].get(str(fid), 0) + 1
                    res.failures.append((dict(payload, printed=pr, why="(reuse history) parse(str(T(tree))) does not mean "
                                              "what T(tree) means"), fid))
        dist["reuse_histories"] += n_hist


# ------------------------------------------------------------------ correspondence

def correspond(model_ok, res):
    import luqum.tree as T
    from luqum.parser import parser
    r = lib.rng("C11")
    quick = lib.tier() == "quick"
    g = PG.QGen(r)
    strings = list(CORPUS)
    for _ in range(170 if quick else 1700):
        lex = g.expr(r.randrange(0, 4))
        strings.append(PG.layout(r, lex, p_sep=r.choice([0.1, 0.5, 0.9])))
    for _ in range(30 if quick else 300):       # chains mixing explicit and implicit operators, open ranges
        lex = g.expr(r.randrange(0, 3))
        for _ in range(r.randrange(1, 5)):
            op = r.choice(["AND", "OR", None, None])
            nxt = r.choice([g.unary(1), [r.choice([">", ">=", "<", "<="]), r.choice(["1", "a", '"x y"'])],
                            ["[", r.choice(["1", "*"]), "TO", r.choice(["5", "*"]), "]"]])
            lex = lex + ([op] if op else []) + nxt
        strings.append(PG.layout(r, lex, p_sep=r.choice([0.0, 0.5, 1.0])))

    TR = transformers(T)
    shipped = [x for x in TR if x[4]]
    extra = [x for x in TR if not x[4]]
    cases, payloads = [], []
    guard_cases, guard_payloads, guard_same, guard_trees = [], [], [], []   # (implementation's T(t), oracle verdict)
    guard_e2e = []                                                          # ... and the end-to-end link of C11m.v
    parsed_strings, parsed_results = [], []
    seen = set()
    dist = {"rejected_inputs": 0, "oracle_evaluations": 0, "transformer": {}, "verdict": {}, "atoms": {}, "non_exhaustive_tables": 0,
            "finding_class": {}, "non_default_add_head_verdicts": {}, "printed_differs_from_query": 0,
            "reparsed_tree_differs_from_transformed": 0}
    for si, s in enumerate(strings):
        kind, tree = PG.impl_parse(s, parser.parse)
        if kind != "ok" or tree is None:
            dist["rejected_inputs"] += 1
            continue
        parsed_strings.append(s)
        parsed_results.append((kind, tree))
        nnodes = len(list(gentree.all_nodes(tree)))
        if si < len(CORPUS):
            todo = shipped + [r.choice(extra)]
        else:
            todo = shipped[:2] + r.sample(shipped[2:], 4) + [r.choice(extra)]
        # the model side (vm_compute of the composed models) runs on every case too
        in_model = set(range(len(todo)))
        ti = -1
        for name, opts, fn, gterm, is_shipped in todo:
            ti += 1
            payload = {"query": s, "transformer": name, "options": opts}
            before = tree.__repr__() + tree.__str__(head_tail=True)
            try:
                t1 = fn(tree)
            except Exception as e:
                t1 = None
                payload["raised"] = repr(e)
            if tree.__repr__() + tree.__str__(head_tail=True) != before:
                res.failures.append((dict(payload, why="the transformer modified its input tree"), None))
            t2, verdict, do_verdict, p = None, "VRaised", True, ""
            if t1 is not None:
                p = t1.__str__(head_tail=True)
                payload["printed"] = p
                k2, t2 = PG.impl_parse(p, parser.parse)
                if k2 != "ok" or t2 is None:
                    payload["reparse_error"] = "%s" % (parsed_or_msg(k2, t2),)
                    t2, verdict = None, "VRejected"
                else:
                    same, n_at, exhaustive, wit = same_meaning(T, t2, t1)
                    verdict = "VSame" if same else "VDiffer"
                    do_verdict = exhaustive
                    dist["atoms"][min(n_at, 11)] = dist["atoms"].get(min(n_at, 11), 0) + 1
                    if not exhaustive:
                        dist["non_exhaustive_tables"] += 1
                    if not same:
                        payload.update(witness=wit, transformed=repr(t1)[:500], reparsed=repr(t2)[:500])
                    if p != s:
                        dist["printed_differs_from_query"] += 1
                    if not (t2 == t1):
                        dist["reparsed_tree_differs_from_transformed"] += 1
            if is_shipped:
                key = name + "".join("/%s" % v for k, v in sorted(opts.items()) if k != "add_head")
                dist["transformer"][key] = dist["transformer"].get(key, 0) + 1
                dist["verdict"][verdict] = dist["verdict"].get(verdict, 0) + 1
                if verdict != "VSame":      # the property oracle, on the implementation
                    fid = classify(T, t1, t2, parser.parse) if t1 is not None else None
                    dist["finding_class"][str(fid)] = dist["finding_class"].get(str(fid), 0) + 1
                    res.failures.append((dict(payload, why="parse(str(T(tree))) does not mean what T(tree) means"
                                              if verdict == "VDiffer" else
                                              "str(T(tree)) is rejected by the parser / the transformer raised"), fid))
                if nnodes > 1:
                    seen.add((s, gterm))
            else:
                key = name + "".join("/%s" % v for k, v in sorted(opts.items()) if k != "add_head") + \
                    "/add_head=%r" % opts.get("add_head")
                dv = dist["non_default_add_head_verdicts"]
                dv[verdict] = dv.get(verdict, 0) + 1
            if t1 is not None:     # the proved guard Regen.regen_ok, evaluated on the implementation's output
                try:               # (the theorems hold for ANY add_head: the caller-supplied ones are judged too)
                    guard_cases.append(lib.g_item(t1))
                    guard_same.append(verdict == "VSame")
                    guard_payloads.append(dict(payload, transformer_key=key, verdict=verdict))
                    guard_trees.append(t1)
                    e2e = None     # C11m.v: the re-parsed tree against the INPUT tree
                    if t2 is not None:
                        t0 = time.time()
                        try:
                            e2e = end_to_end(T, name, opts, tree, t2)
                        except Exception as e:
                            e2e = (False, "the end-to-end oracle raised %r" % (e,))
                        dist["end_to_end_oracle_seconds"] = round(dist.get("end_to_end_oracle_seconds", 0.0) +
                                                                  time.time() - t0, 3)
                    guard_e2e.append(e2e)
                except lib.Unmodelled:
                    pass
            dist["oracle_evaluations"] += 1
            if ti not in in_model:
                continue
            try:
                exp_t2 = "None" if t2 is None else "(Some %s)" % lib.g_item(t2)
            except lib.Unmodelled:
                continue
            cases.append("(%s, %s, %s, %s, %s, %s)" % (lib.g_str(s), gterm, lib.g_str(p), exp_t2,
                                                       lib.g_bool(do_verdict), verdict))
            payloads.append(payload)

    # instance state (outside the value model): reuse histories on the implementation
    dist.update(reuse_histories=0, reuse_steps=0, reuse_mismatches=0, reuse_finding_class={})
    reuse_histories(T, parser.parse, r, parsed_strings, 8 if quick else 80, res, dist)

    res.cases = len(cases)
    res.nontrivial = len(seen)
    res.rule = ("grammar-directed parsed queries (every production, random Unicode-whitespace layout, chains mixing "
                "explicit / implicit operators and open ranges) and a fixed corpus x the shipped transformers (copy, "
                "auto_head_tail, resolver x 4 targets, open ranges x merge, resolve-then-open-range x 8), plus "
                "add_head in {'', newline} for the model only. The Python oracle runs on every (query, transformer) "
                "and so do the composed Coq models (vm_compute), verdicts compared when the truth table is exhaustive "
                "(<= 10 atoms); non-trivial = distinct "
                "(query, shipped transformer) whose parsed tree has more than one node. REUSE histories (implementation only): "
                "one instance of each shipped transformer (resolver x 4 targets, open ranges x merge, the module-level "
                "auto_head_tail, a TreeTransformer) applied to 2-6 parsed queries in a row and to the same tree object "
                "again after in-place edits; each result compared with a fresh instance's (lib.g_item text) and judged "
                "by the same oracle")
    res.samples = payloads[150:156] or payloads[:6]
    res.distribution = dist
    if not model_ok:
        res.model_error = "model did not build"
        return res
    defs = ("Definition chk (c : str * tname * str * option item * bool * verdict) : bool :=\n"
            "  let '(s, T, p, t2, dov, v) := c in\n"
            "  match parse s with\n"
            "  | Some (Ok t) =>\n"
            "      match run_t T t with\n"
            "      | Some t' =>\n"
            "          str_eqb (print true t') p &&\n"
            "          match parse p, t2 with\n"
            "          | Some (Ok a), Some b => item_beq a b\n"
            "          | Some (Err _), None => true\n"
            "          | _, _ => false\n"
            "          end && (if dov then verdict_eqb (c11_verdict T t) v else true)\n"
            "      | None => verdict_eqb v VRaised\n"
            "      end\n"
            "  | _ => false\n"
            "  end.")
    canary1 = "([97]%N, TCopy, [98]%N, Some (Term KWord (mkMeta (Some 0%Z) (Some 1%Z) [] [] None) [98]%N), true, VSame)"
    canary2 = "([97]%N, TCopy, [97]%N, Some (Term KWord (mkMeta (Some 0%Z) (Some 1%Z) [] [] None) [97]%N), true, VDiffer)"
    canary3 = "([97]%N, TCopy, [97]%N, Some (Term KWord (mkMeta (Some 0%Z) (Some 1%Z) [] [] None) [97]%N), true, VSame)"
    try:
        bad = lib.eval_cases("C11", "Base Decimal Tree TreeEq GenParser Lexer Print Actions LR Parser Eq Traverse Resolver "
                             "OpenRange AutoHeadTail Meaning", defs, cases + [canary1, canary2, canary3], "chk", shard=60)
        n = len(cases)
        assert n in bad and n + 1 in bad and n + 2 not in bad, "canary not detected"
        for i in bad:
            if i < n:
                res.disagreements.append(payloads[i])
        # the hypothesis side of the statement in the model: the model parser returns the same trees
        for i in PG.run_parse_cases("C11p", parsed_strings, parsed_results):
            res.disagreements.append({"query": parsed_strings[i], "what": "model parser differs on the input query"})
    except Exception as e:
        res.model_error = "%s: %s" % (type(e).__name__, e)
        return res
    guard_check(T, res, dist, guard_cases, guard_same, guard_payloads, guard_trees, guard_e2e, parser.parse)
    return res


def lower_under_higher(T, t1):
    """an operation of lower precedence directly under a higher one: OR / implicit / Bool under AND, implicit / Bool
    under OR (F10's shape; an implicit operation under AND / OR in a PARSED tree is F4's shape), or any operation
    directly under NOT + - field: ^"""
    lvl = {T.AndOperation: 2, T.OrOperation: 1, T.UnknownOperation: 0, T.BoolOperation: 0}
    for _, n in gentree.all_nodes(t1):
        if type(n) in lvl and len(n.children) != 1:
            if any(type(c) in lvl and len(c.children) != 1 and lvl[type(c)] < max(lvl[type(n)], 1) for c in n.children):
                return True
        elif isinstance(n, (T.Not, T.Plus, T.Prohibit, T.SearchField, T.Boost)):
            if any(type(c) in lvl and len(c.children) != 1 for c in n.children):
                return True
    return False


def explained_outside(T, t1):
    """which known predicate explains that a transformed tree is outside the proved guard"""
    out = []
    if any(isinstance(n, T.BoolOperation) for _, n in gentree.all_nodes(t1)):
        out.append("bool(F10c)")
    if lower_under_higher(T, t1):
        out.append("levels(F10/F4)")
    if fused_field(T, t1):
        out.append("fused_field(F1)")
    if operator_fuses(T, t1):
        out.append("operator_fuses(F10b)")
    if not out:
        import re
        for _, n in gentree.all_nodes(t1):     # the one place where the guard's local criterion is wider than the
            if isinstance(n, T.SearchField) and ":" in n.name and \
                    re.match(r"\d\d", n.expr.__str__(head_tail=True)):    # lexer: AhtRoundTrip.name_glue (see C13r.v)
                out.append("name_glue corner (a field name containing a colon in front of two digits)")
                break
    return out


def guard_check(T, res, dist, guard_cases, guard_same, guard_payloads, guard_trees, guard_e2e, parse):
    """The proved theorems C11_regen / C11_resolve_partial / C11_openrange_partial (props/C11r.v): the executable guard
    `Regen.regen_ok` is evaluated (vm_compute) on the tree the IMPLEMENTATION's transformer returned; inside the guard
    the implementation's print -> re-parse -> truth table must say 'same meaning'.  Also measured: how many cases are
    inside, per transformer; why the others are outside (levels / BoolOperation = findings F10 / F10c and F4-shaped
    inputs, another shape defect, a fusing lexeme = F10b / F1) and how many of those hold anyway (the guard is
    conservative there: validated only).  Canaries: a tree known to be inside must be counted inside, a tree known to
    be outside must not."""
    imports = "Base Decimal Tree TreeEq Lexer Print Regen"
    defs = ("Definition chk_in (t : item) : bool := negb (regen_ok t).\n"
            "Definition chk_shape (t : item) : bool := gshape t.\n"
            "Definition chk_other (t : item) : bool := gshape t || lower_under_higher t || has_bool t.")
    inside = T.AndOperation(T.Word("a", tail=" "), T.Group(T.OrOperation(T.Word("b", tail=" "), T.Phrase('"c d"', head=" ")),
                                                           head=" "))
    outside = T.AndOperation(T.Word("a"), T.Group(T.Word("b"), head=" "))          # prints `aAND (b)`
    n = len(guard_cases)
    try:
        in_idx = lib.eval_cases("C11", imports, defs, guard_cases + [lib.g_item(inside), lib.g_item(outside)],
                                "chk_in", shard=150)
    except Exception as e:
        res.model_error = "guard evaluation: %s: %s" % (type(e).__name__, e)
        return
    if n not in in_idx or n + 1 in in_idx:
        res.model_error = "canary not detected: the regen_ok comparison is vacuous"
        return
    in_set = set(i for i in in_idx if i < n)
    out_list = [i for i in range(n) if i not in in_set]
    g = {"cases": n, "inside": len(in_set), "inside_by_transformer": {}, "cases_by_transformer": {},
         "outside": len(out_list), "outside_and_same_meaning (guard conservative, validated only)": 0,
         "outside_failing (all classified as known findings by the oracle above)": 0,
         "outside_why": {"levels_or_bool_or_F4_shape": 0, "other_shape": 0, "lexeme_fuses_only": 0},
         "outside_explained_by_known_predicate": {}, "outside_unexplained": 0,
         "outside_unexplained_with_the_default_add_head": 0}
    ge = {"inside_checked": 0, "inside_holding": 0, "inside_holding_by_transformer": {}, "outside_checked": 0,
          "outside_holding (validated only)": 0}
    g["end_to_end_wrt_input (C11m.v)"] = ge
    # canaries of the end-to-end oracle: F10's witness must fail, a plain resolution / a merge must hold
    try:
        c_in = parse("x OR y z")
        c1 = end_to_end(T, "resolve", {"resolve_to": "and", "add_head": " "}, c_in, parse("x OR y AND z"))
        c2 = end_to_end(T, "resolve", {"resolve_to": "and", "add_head": " "}, c_in, parse("(x OR y) AND z"))
        c3 = end_to_end(T, "open_range", {"merge_ranges": True, "add_head": " "}, parse(">=1 AND <5"), parse("[1 TO 5}"))
        c4 = end_to_end(T, "open_range", {"merge_ranges": True, "add_head": " "}, parse(">=1 AND <5"), parse("[1 TO 5]"))
        c5 = end_to_end(T, "open_range", {"merge_ranges": False, "add_head": " "}, parse(">=1 AND <5"), parse("[1 TO 5}"))
        assert not c1[0] and c2[0] and c3[0] and not c4[0] and not c5[0], (c1, c2, c3, c4, c5)
    except Exception as e:
        res.model_error = "canary of the end-to-end oracle: %s: %s" % (type(e).__name__, e)
        return
    for i in range(n):
        k = guard_payloads[i]["transformer_key"]
        g["cases_by_transformer"][k] = g["cases_by_transformer"].get(k, 0) + 1
        if i in in_set:
            g["inside_by_transformer"][k] = g["inside_by_transformer"].get(k, 0) + 1
            if not guard_same[i]:
                res.failures.append((dict(guard_payloads[i], why="inside the proved guard regen_ok (C11_regen, "
                                          "C11_resolve_partial, C11_openrange_partial) but the implementation's output "
                                          "does not re-parse to a tree with the same meaning"), None))
            e2 = guard_e2e[i]      # C11m.v: inside the guard the re-parsed tree means what the INPUT is expected to mean
            ge["inside_checked"] += e2 is not None
            if e2 is not None and not e2[0]:
                res.failures.append((dict(guard_payloads[i], link=e2[1], why="inside the proved guard regen_ok but the "
                                          "re-parsed tree does not mean what the INPUT tree means under the transformer's "
                                          "reading (C11_resolve_end_to_end / C11_openrange_end_to_end / "
                                          "C11_transformers_end_to_end)"), None))
            elif e2 is not None:
                ge["inside_holding"] += 1
                ge["inside_holding_by_transformer"][k] = ge["inside_holding_by_transformer"].get(k, 0) + 1
        else:
            if guard_e2e[i] is not None:
                ge["outside_checked"] += 1
                ge["outside_holding (validated only)"] += bool(guard_e2e[i][0])
            if guard_same[i]:
                g["outside_and_same_meaning (guard conservative, validated only)"] += 1
            else:
                g["outside_failing (all classified as known findings by the oracle above)"] += 1
            why = explained_outside(T, guard_trees[i])   # the guard excludes nothing but the known classes
            kk = "+".join(why) if why else "unexplained"
            g["outside_explained_by_known_predicate"][kk] = g["outside_explained_by_known_predicate"].get(kk, 0) + 1
            if not why and guard_payloads[i]["options"].get("add_head", " ") == " ":
                g["outside_unexplained_with_the_default_add_head"] = \
                    g.get("outside_unexplained_with_the_default_add_head", 0) + 1
                g.setdefault("unexplained_default_samples", []).append(
                    {k: guard_payloads[i].get(k) for k in ("query", "transformer_key", "printed", "verdict")})
            if not why:
                g["outside_unexplained"] += 1
                g.setdefault("unexplained_samples", [])
                if len(g["unexplained_samples"]) < 8:
                    g["unexplained_samples"].append({k: guard_payloads[i].get(k) for k in
                                                     ("query", "transformer_key", "printed", "verdict")})
    if out_list:
        try:
            sub = [guard_cases[i] for i in out_list]
            sh = set(lib.eval_cases("C11", imports, defs, sub, "chk_shape", shard=150))       # gshape false
            ot = set(lib.eval_cases("C11", imports, defs, sub, "chk_other", shard=150))       # ... for another reason
        except Exception as e:
            res.model_error = "guard classification: %s: %s" % (type(e).__name__, e)
            return
        for j, i in enumerate(out_list):
            if j in ot:
                g["outside_why"]["other_shape"] += 1
                g.setdefault("other_shape_samples", [])
                if len(g["other_shape_samples"]) < 5:
                    g["other_shape_samples"].append({k: guard_payloads[i][k] for k in ("query", "transformer_key", "verdict")})
            elif j in sh:
                g["outside_why"]["levels_or_bool_or_F4_shape"] += 1
            else:
                g["outside_why"]["lexeme_fuses_only"] += 1
            if guard_same[i]:
                g.setdefault("conservative_samples", [])
                if len(g["conservative_samples"]) < 60:
                    g["conservative_samples"].append(
                        [guard_payloads[i]["query"], guard_payloads[i]["transformer_key"],
                         guard_payloads[i].get("printed"), "shape" if j in sh else "lexeme"])
    dist["proved_guard_regen_ok"] = g
    if len(in_set) < 100:
        res.model_error = "only %d generated (query, transformer) outputs are inside the guard regen_ok" % len(in_set)


def parsed_or_msg(kind, val):
    return "%s: %s" % (kind, val)


SPEC = {
    "id": "C11",
    "targets": ["props/C11.vo"],
    "model_targets": ["model/Meaning.vo", "model/Regen.vo"],
    "module": "C11",
    "theorems": ["C11_refuted", "C11_resolve_and_refuted", "C11_resolve_lucene_refuted", "C11_resolve_or_refuted",
                 "C11_refuted_F10b", "C11_refuted_F10b_or", "C11_refuted_F10c", "C11_refuted_F1", "C11_aht_refuted",
                 "C11_open_range_refuted", "C11_resolve_open_refuted", "C11_every_transformer_refuted",
                 "C11_meaning_respects_equality", "C11_meaning_eqb_correct", "C11_verdict_is_statement",
                 "C11_parsed_wellformed",
                 "C11_copy_partial", "C11_copy_total", "C11_resolve_no_unknown_partial",
                 "C11_equal_tree_modulo_lexing", "C11_copy_modulo_lexing", "C11_aht_modulo_lexing", "C11_aht_total"],
    # auto_head_tail end to end: token-granular lossless theorem (proofs/TokenLayoutProofs.v) + L-respace
    "more": [{"module": "C11p", "target": "props/C11p.vo",
              "theorems": ["C11_aht_partial", "C11_fills_partial", "C01_token_layout", "C01_layout_spells"]},
             # the positive statement for the resolver, the open-range transformer and every other shipped transformer,
             # under the executable guard Regen.regen_ok on the transformer's output (proofs/ResolverRoundTripProofs.v)
             {"module": "C11r", "target": "props/C11r.vo",
              "theorems": ["C11_regen", "C11_regen_tokens", "C11_resolve_partial", "C11_openrange_partial",
                           "C11_resolve_open_partial", "C11_shipped_partial", "C11_regen_unguarded_refuted"]},
             # END TO END w.r.t. the INPUT, inside the guard: the re-parsed tree against the parsed query
             # (proofs/MeaningLinkProofs.v composes C10's resolution / C12's Conv with Meaning.v and C11_regen)
             {"module": "C11m", "target": "props/C11m.vo",
              "theorems": ["C11_resolve_end_to_end", "C11_resolve_default_end_to_end", "C11_openrange_end_to_end",
                           "C11_openrange_plain_fingerprint", "C11_transformers_end_to_end", "C11_shipped_end_to_end",
                           "C11m_range_respecting_needed", "C11m_guard_needed"]}],
    "correspond": correspond,
    "statement": "for every parsed query t and shipped transformer T (copy, auto_head_tail, resolver x 4 targets, open "
                 "ranges x merge, resolve-then-open-range; add_head = one blank), parse(str(T(t))) succeeds and has the "
                 "boolean meaning of T(t) for every valuation of the atoms and both default operators: REFUTED for every "
                 "shipped transformer (F10 'x OR y z'; F10b 'a(b)'; F10c 'a b' to BoolOperation; F1 '-xT12 :30'). Proved: "
                 "the default copy under C01's guard (and copy / auto_head_tail whenever the printed tree lexes to the "
                 "query's tokens); well-definedness of the meaning. C11_aht_partial (C11p.v): the statement for "
                 "auto_head_tail on every parsed query without ghost event (C01's guard, excludes F1). "
                 "C11_resolve_partial / C11_openrange_partial / C11_resolve_open_partial / C11_shipped_partial (C11r.v): the "
                 "statement for UnknownOperationResolver (every target, Lucene mode, ANY add_head), OpenRangeTransformer "
                 "(with / without merge_ranges, ANY add_head), their composition and every shipped transformer, for every "
                 "parsed query whose TRANSFORMED tree is inside the executable guard Regen.regen_ok (= not F10, not F10c, "
                 "not F10b / F1's fused field, not an F4-shaped tree); they are instances of C11_regen: ANY tree inside "
                 "the guard prints to a query that parses to a tree with the same meaning. END TO END w.r.t. the INPUT, "
                 "inside the guard (C11m.v): C11_resolve_end_to_end / C11_resolve_default_end_to_end / "
                 "C11_openrange_end_to_end / C11_transformers_end_to_end / C11_shipped_end_to_end: the re-parsed tree means, "
                 "for every valuation, what the PARSED QUERY means - read with the resolved operators (target AND / OR: "
                 "under any default operator, what the query means under the default AND / OR; Lucene mode: the operator "
                 "found at each implicit operation's path, AND or OR per C10's rule), with every comparison read as the "
                 "one-sided range it abbreviates, and for merge_ranges over the range-respecting valuations (a range = "
                 "lower condition and upper condition, * unbounded: the convention of C12's oracle)",
    "level_text": "Coq proof (PARTIAL) + correspondence. Proved: (1) the full statement is refuted by computed witnesses, one "
                  "per defect class, and C11_every_transformer_refuted: NO shipped transformer satisfies it on all parsed "
                  "queries (F1's fused field breaks even the default copy); (2) the boolean meaning `sem` is a function of "
                  "the layout-free fingerprint: luqum-equal trees and trees equal up to layout have the same meaning, and "
                  "the truth-table comparison used by the executable statement decides 'same meaning for every valuation "
                  "and both defaults'; (3) for ANY LR tables every tree the parser returns satisfies the constructor "
                  "invariant wf_node at every node (an invariant of the semantic actions), hence its default copy prints "
                  "the same text and is == to it; (4) C11_copy_partial: when the parser dropped / re-spelled no text "
                  "(C01's guard) the printed copy IS the query and re-parses to the very same tree; "
                  "(5) C11_copy_partial / C11_aht_partial: using the any-table layout independence of the LR driver (C03a), copy "
                  "and auto_head_tail satisfy the statement whenever their printed result lexes to the query's tokens; "
                  "auto_head_tail never raises on a parsed query; (6) C11_resolve_no_unknown_partial: on a query without "
                  "implicit operation the resolver (every target, Lucene mode, any add_head) is the default copy, hence "
                  "satisfies the statement under the copy's guard; (7) C11p.v, END TO END for auto_head_tail: C11_aht_partial = "
                  "the statement for auto_head_tail on every parsed query without ghost event (C01's guard; excludes F1, "
                  "the witness of C11_aht_refuted). It stands on C01_token_layout (ANY LR tables: the layout of the parsed "
                  "tree is, token by token, the layout of the query's tokens - an invariant of the 25 semantic actions), on "
                  "daht_fills (auto_head_tail only sets empty heads/tails to one blank) and on the lexer theorem L-respace; "
                  "C11_fills_partial is the same for ANY tree that only fills empty heads/tails of the parsed one. "
                  "(8) C11r.v, END TO END for the resolver and the open-range transformer (and every other shipped "
                  "transformer, without C01's guard): C11_regen = for ANY tree x (with the layout it carries) inside the "
                  "executable guard regen_ok (model/Regen.v), print true x has no lexical error, lexes to the expected "
                  "lexemes `lexemes x`, each typed as it is typed standing alone, which is the yield of a well-formed "
                  "syntax tree of the documented grammar satisfying C03d's guard (AND under AND / OR under OR re-associated "
                  "to the left as the parser reads them), is accepted by the LR driver on the generated tables (C03d's "
                  "machinery), and the tree returned has the boolean meaning of x (C11_regen_tokens). regen_ok = gshape "
                  "(every node is what one grammar rule builds; numerals read back as printed; no operation of lower "
                  "precedence directly under a higher one = F10's shape; no BoolOperation = F10c; not F4's pattern) AND scan "
                  "(a LOCAL criterion on the printed form, the lexer is not run: each expected lexeme is followed by "
                  "blanks or by a character it cannot absorb: a TERM-rule lexeme by a character the TERM rule stops at - "
                  "with the time syntax excluded after a colon -, < > not by =, ~n ^n not by a digit: what fails in F10b "
                  "`aAND (b)` and in F1's `-xT12:30`). C11_resolve_partial, C11_openrange_partial, C11_resolve_open_partial, "
                  "C11_shipped_partial are its instances for the transformers (any target, Lucene mode, merge or not, ANY "
                  "add_head). Each guard component is shown needed by a witness (C11r_levels_needed, C11r_bool_needed, "
                  "C11r_scan_needed, C11r_shape_needed; C11_regen_unguarded_refuted); an AND directly under an AND (the "
                  "resolver's output for `a b AND c`) is inside the guard: it is read flattened, with the same meaning "
                  "(C11r_flatten_inside). On every run harness/c11.py evaluates regen_ok (vm_compute) on the tree the "
                  "IMPLEMENTATION's transformer returned for every generated (query, transformer, add_head) and requires "
                  "the implementation's print -> re-parse -> truth table to say 'same meaning' whenever the guard holds "
                  "(two canaries); it also measures that every output outside the guard is explained by an executable "
                  "predicate of a known class (BoolOperation F10c, lower-under-higher F10 / an F4-shaped parsed tree, "
                  "fused field F1, fusing operator F10b; the documented name_glue corner) and that no node-shape component "
                  "ever fails on a transformer's output. "
                  "(9) C11m.v, END TO END WITH RESPECT TO THE INPUT, inside the guard (proofs/MeaningLinkProofs.v): the "
                  "theorems of (8) relate the re-parsed tree t'' to the transformer's OUTPUT t'; these relate t'' to the "
                  "parsed query t. Resolver (any target, Lucene mode, any add_head), C11_resolve_end_to_end: by induction "
                  "over C10's `resolution` relation, fingerprint t' = read_as (chosen t') t = the fingerprint of t in which "
                  "the implicit operation at path p is the operation found at p in t' (the target for an explicit "
                  "target; AND or OR in the Lucene mode, AND throughout when the query has no explicit AND / OR), no "
                  "implicit operation is left, so sem d v t'' = fsem d' v (read_as (chosen t') t) for every valuation and "
                  "whatever the default operators d, d'; C11_resolve_default_end_to_end: for the targets AND / OR, under "
                  "ANY default operator t'' means what t means under the default operator AND / OR (Meaning.v's own "
                  "reading of t; uses that the leaves of the meaning hold values only, which follows from the guard: "
                  "regen_ok_flat, resolution_flat). Open ranges, C11_openrange_end_to_end: by induction over C12's `Conv` "
                  "relation; atoms are compared by fingerprint in Meaning.v, so >1 and {1 TO *] are different atoms: the "
                  "statement is against canon (fingerprint t), the query in which every comparison IS the one-sided "
                  "range atom it abbreviates; without merging for EVERY valuation (fingerprint t' = canon (fingerprint "
                  "t), C11_openrange_plain_fingerprint, no guard needed); with merging ([1 TO *] AND [* TO 5} becomes the "
                  "new atom [1 TO 5}) for the RANGE-RESPECTING valuations: v [lo TO hi] = L lo && H hi for arbitrary "
                  "functions L, H of the field / boost context, the inclusiveness flag and the bound, * being no condition "
                  "(the convention of harness/c12.py's oracle and of C12's `holds`); C11m_range_respecting_needed: for "
                  "the other valuations merging does change the truth table. C11_transformers_end_to_end / "
                  "C11_shipped_end_to_end: every transformer as data (copy and auto_head_tail: same fingerprint as the "
                  "query; resolver; open ranges; resolve-then-open-ranges: canon of the reading), any add_head / the "
                  "shipped blank. C11m_guard_needed: without the guard the end-to-end statement is false (F10). No "
                  "hypothesis beyond C11r's: parsed query, guard on the output. On every run harness/c11.py also "
                  "evaluates the same link on the IMPLEMENTATION (independent Python oracle: relabelled / canonical "
                  "expected tree built from the input, truth tables over atoms resp. half-range conditions, five "
                  "canaries) for every generated (query, transformer) whose re-parse succeeds, and requires it to hold "
                  "whenever the guard holds. "
                  "NOT proved: the statement OUTSIDE the guard where it nevertheless holds (F4-shaped trees under copy / "
                  "auto_head_tail / open ranges, a few per thousand generated cases): validated on every "
                  "run by the correspondence, which evaluates the executable statement both on the real code "
                  "(parser.parse(str(T(tree))), truth tables over <= 10 atoms, both defaults) and on the composed Coq models "
                  "(Parser.parse (Print.print (run_t T t)) and meaning_eqb by vm_compute) and compares printed strings, "
                  "re-parsed trees and verdicts; every failure of the oracle must match the executable predicate of a "
                  "known finding. add_head values other than the default blank are caller-supplied text: exercised for "
                  "the model correspondence only, outside the statement.",
    "trusted_base": [
        "Coq 8.16.1 kernel (vm_compute for the witnesses, table facts and correspondence; no native_compute); no axioms",
        "gen/translate.py: class MROs, _equality_attrs, visitor method tables, operator strings, LR tables",
        "hand-written specification coq/model/Meaning.v (the boolean meaning; mirrored by the Python oracle in "
        "harness/c11.py) and the shared models Parser.v, Print.v, Traverse.v, Resolver.v, OpenRange.v, AutoHeadTail.v, "
        "Eq.v — tied by differential correspondence on every run",
        "Unknown operations are read with a default operator (AND or OR, both checked); BoolOperation as the "
        "Lucene/Elasticsearch boolean query; boosts are kept as part of the atoms below them",
        "C11r.v: the executable guard coq/model/Regen.v regen_ok (evaluated on the model for every transformer output "
        "of the implementation, with two canaries); the lexer model Lexer.v and the generated LR tables (through "
        "proofs/GrammarMoreProofs.v, C03d)",
    ],
    "assumptions": ["trees come from luqum's parser (programmatic trees are outside the property)",
                    "state kept on a transformer instance or keyed on id(tree) is outside the value model (the Coq "
                    "transformers are functions of the tree): it is covered on the implementation by the reuse "
                    "histories of harness/c11.py (reused instance vs fresh instance, sequences of queries, same object "
                    "after in-place edits)",
                    "add_head is the default single blank for the statement; other values only tie the models"],
}
