(* MarkupProofs.v — lemmas about reading HTMLMarker's output string as markup (model: Markup.v). *)
Require Import Base Decimal Tree GenTree GenVisitors Visitor Print Eq TreeInd Marker MarkerProofs Markup.
Require Import TraverseProofs.
From Coq Require Import Lia.

(* ---------------------------------------------------------------- prefixes *)
Lemma is_prefix_app p r : is_prefix p (p ++ r) = true.
Proof. induction p as [|a p IH]; simpl; [reflexivity|]. rewrite N.eqb_refl. exact IH. Qed.

Lemma is_prefix_refl p : is_prefix p p = true.
Proof. rewrite <- (app_nil_r p) at 2. apply is_prefix_app. Qed.

Lemma is_prefix_app_l a s r : is_prefix a s = true -> is_prefix a (s ++ r) = true.
Proof.
  revert s. induction a as [|x a IH]; intros s H; [reflexivity|].
  destruct s as [|y s]; [discriminate|]. simpl in *.
  apply andb_prop in H as [H1 H2]. rewrite H1, (IH _ H2). reflexivity.
Qed.

Lemma is_prefix_cancel p a s : is_prefix (p ++ a) (p ++ s) = is_prefix a s.
Proof. induction p as [|x p IH]; simpl; [reflexivity|]. rewrite N.eqb_refl. exact IH. Qed.

(* a prefix of s ++ r is a prefix of s, or goes through the whole of s *)
Lemma is_prefix_app_cases a s r :
  is_prefix a (s ++ r) = true ->
  is_prefix a s = true \/ exists a', a = s ++ a' /\ is_prefix a' r = true.
Proof.
  revert a. induction s as [|y s IH]; intros a H.
  - right. exists a. split; [reflexivity|exact H].
  - destruct a as [|x a]; [left; reflexivity|]. simpl in H.
    apply andb_prop in H as [H1 H2]. apply N.eqb_eq in H1. subst y.
    destruct (IH _ H2) as [Hl|[a' [Ha Hr]]].
    + left. simpl. rewrite N.eqb_refl. exact Hl.
    + right. exists a'. split; [simpl; rewrite Ha; reflexivity|exact Hr].
Qed.

Lemma prefix_comparable a b r :
  is_prefix a (b ++ r) = true -> is_prefix a b = true \/ is_prefix b a = true.
Proof.
  revert b. induction a as [|x a IH]; intros b H; [left; reflexivity|].
  destruct b as [|y b]; [right; reflexivity|]. simpl in H.
  apply andb_prop in H as [H1 H2]. apply N.eqb_eq in H1. subst y. simpl. rewrite N.eqb_refl.
  exact (IH _ H2).
Qed.

Lemma has_lt_app a b : has_lt (a ++ b) = has_lt a || has_lt b.
Proof. apply existsb_app. Qed.

(* a string that starts with '<' has no prefix without '<' but the empty one *)
Lemma no_lt_prefix_of_lt body r : has_lt body = false -> is_prefix body (c_lt :: r) = true -> body = [].
Proof.
  destruct body as [|x body]; [reflexivity|]. intros Hl Hp. exfalso.
  unfold has_lt in Hl. cbn [existsb] in Hl. cbn [is_prefix] in Hp.
  apply andb_prop in Hp as [Hp _]. apply N.eqb_eq in Hp. subst x.
  rewrite N.eqb_refl in Hl. discriminate Hl.
Qed.

(* ---------------------------------------------------------------- exploded segments read alike *)
Lemma texts_chars s rest : texts (map (fun c => Text [c]) s ++ rest) = s ++ texts rest.
Proof. induction s as [|c s IH]; simpl; [reflexivity|]. rewrite IH. reflexivity. Qed.

Lemma bal_chars d s rest : bal d (map (fun c => Text [c]) s ++ rest) = bal d rest.
Proof. induction s as [|c s IH]; simpl; [reflexivity|exact IH]. Qed.

Lemma cpc_chars st s rest :
  cpc st (map (fun c => Text [c]) s ++ rest) = map (fun _ => hd_error st) s ++ cpc st rest.
Proof. induction s as [|c s IH]; simpl; [reflexivity|]. rewrite IH. reflexivity. Qed.

Lemma texts_explode sg : texts (explode sg) = texts sg.
Proof.
  induction sg as [|[s|c|] sg IH]; simpl; [reflexivity| | |]; try exact IH.
  rewrite texts_chars, IH. reflexivity.
Qed.

Lemma bal_explode : forall sg d, bal d (explode sg) = bal d sg.
Proof.
  induction sg as [|[s|c|] sg IH]; intros d; simpl; [reflexivity| | |].
  - rewrite bal_chars. apply IH.
  - apply IH.
  - destruct d; [reflexivity|apply IH].
Qed.

Lemma cpc_explode : forall sg st, cpc st (explode sg) = cpc st sg.
Proof.
  induction sg as [|[s|c|] sg IH]; intros st; simpl; [reflexivity| | |]; try apply IH.
  rewrite cpc_chars, IH. reflexivity.
Qed.

(* ---------------------------------------------------------------- the tags *)
Lemma open_tag_cons elem c :
  open_tag elem c = c_lt :: (elem ++ [32;99;108;97;115;115;61;34]%N ++ c ++ [34;62]%N).
Proof. reflexivity. Qed.
Lemma close_tag_cons elem : close_tag elem = c_lt :: (c_slash :: elem ++ [c_gt]).
Proof. reflexivity. Qed.

Lemma open_tag_inj elem a b : open_tag elem a = open_tag elem b -> a = b.
Proof.
  unfold open_tag. intros H. apply app_inv_head in H. apply app_inv_head in H. apply app_inv_head in H.
  apply app_inv_tail in H. exact H.
Qed.

Lemma open_ne_close elem c : open_tag elem c <> close_tag elem.
Proof.
  intros H. apply (f_equal (@length _)) in H. unfold open_tag, close_tag in H.
  rewrite !app_length in H. simpl in H. lia.
Qed.

Section Scan.
  Variables elem okc koc : str.
  Notation tags := (marker_tags elem okc koc).
  Notation tag_at := (tag_at elem okc koc).
  Notation scan_go := (scan_go elem okc koc).
  Notation no_tag_in := (no_tag_in elem okc koc).

  Lemma in_tags tg : In tg tags <-> tg = open_tag elem okc \/ tg = open_tag elem koc \/ tg = close_tag elem.
  Proof.
    unfold marker_tags. simpl. split.
    - intros [H|[H|[H|[]]]]; auto.
    - intros [H|[H|H]]; auto.
  Qed.

  (* skipping the rest of a recognised tag *)
  Lemma scan_skip u r : scan_go (length u) (u ++ r) = scan_go 0 r.
  Proof. induction u as [|c u IH]; [reflexivity|exact IH]. Qed.

  Lemma scan_tag tg tok r :
    tg <> [] -> tag_at (tg ++ r) = Some (tok, length tg) -> scan_go 0 (tg ++ r) = tok :: scan_go 0 r.
  Proof.
    destruct tg as [|c tg]; [intros H; contradiction|]. intros _ H.
    change ((c :: tg) ++ r) with (c :: (tg ++ r)) in *. cbn [Markup.scan_go]. rewrite H.
    simpl. f_equal. apply scan_skip.
  Qed.

  Lemma scan_char c s :
    (forall tg, In tg tags -> is_prefix tg (c :: s) = false) -> scan_go 0 (c :: s) = Text [c] :: scan_go 0 s.
  Proof.
    intros H. cbn [Markup.scan_go]. unfold Markup.tag_at.
    rewrite !H by (apply in_tags; auto). reflexivity.
  Qed.

  (* ---------------------------------------------------------------- what params_ok gives *)
  Hypothesis Hp : params_ok elem okc koc = true.

  Lemma params_no_lt : has_lt elem = false /\ has_lt okc = false /\ has_lt koc = false.
  Proof.
    unfold params_ok in Hp. apply andb_prop in Hp as [H _].
    apply andb_prop in H as [H H3]. apply andb_prop in H as [H1 H2].
    apply negb_true_iff in H1, H2, H3. auto.
  Qed.

  Lemma prefix_free a b : In a tags -> In b tags -> is_prefix a b = true -> a = b.
  Proof.
    intros Ha Hb Hab. unfold params_ok in Hp. apply andb_prop in Hp as [_ H].
    rewrite forallb_forall in H. specialize (H a Ha). rewrite forallb_forall in H. specialize (H b Hb).
    rewrite Hab in H. simpl in H. apply str_eqb_eq. exact H.
  Qed.

  (* every tag is '<' followed by characters that are not '<' *)
  Lemma tag_shape tg : In tg tags -> exists body, tg = c_lt :: body /\ has_lt body = false.
  Proof.
    destruct params_no_lt as [He [Ho Hk]].
    intros H. apply in_tags in H. destruct H as [H|[H|H]]; subst tg.
    - rewrite open_tag_cons. eexists. split; [reflexivity|].
      rewrite !has_lt_app, He, Ho. reflexivity.
    - rewrite open_tag_cons. eexists. split; [reflexivity|].
      rewrite !has_lt_app, He, Hk. reflexivity.
    - rewrite close_tag_cons. eexists. split; [reflexivity|].
      change (c_slash :: elem ++ [c_gt]) with ([c_slash] ++ elem ++ [c_gt]).
      rewrite !has_lt_app, He. reflexivity.
  Qed.

  Lemma tag_nonempty tg : In tg tags -> tg <> [].
  Proof. intros H. destruct (tag_shape tg H) as [b [-> _]]. discriminate. Qed.

  (* a tag that starts a string tg ++ r, tg a tag, is tg *)
  Lemma tag_prefix_tag a tg r : In a tags -> In tg tags -> is_prefix a (tg ++ r) = true -> a = tg.
  Proof.
    intros Ha Ht H. destruct (prefix_comparable _ _ _ H) as [H1|H1].
    - apply prefix_free; assumption.
    - symmetry. apply prefix_free; assumption.
  Qed.

  Lemma tag_at_open c r :
    c = okc \/ c = koc -> tag_at (open_tag elem c ++ r) = Some (Open c, length (open_tag elem c)).
  Proof.
    intros [->| ->]; unfold Markup.tag_at.
    - rewrite is_prefix_app. reflexivity.
    - destruct (is_prefix (open_tag elem okc) (open_tag elem koc ++ r)) eqn:E.
      + apply tag_prefix_tag in E; [|apply in_tags; auto|apply in_tags; auto].
        apply open_tag_inj in E. rewrite E. reflexivity.
      + rewrite is_prefix_app. reflexivity.
  Qed.

  Lemma tag_at_close r : tag_at (close_tag elem ++ r) = Some (Close, length (close_tag elem)).
  Proof.
    unfold Markup.tag_at.
    destruct (is_prefix (open_tag elem okc) (close_tag elem ++ r)) eqn:E1.
    { apply tag_prefix_tag in E1; [|apply in_tags; auto|apply in_tags; auto].
      exfalso. exact (open_ne_close _ _ E1). }
    destruct (is_prefix (open_tag elem koc) (close_tag elem ++ r)) eqn:E2.
    { apply tag_prefix_tag in E2; [|apply in_tags; auto|apply in_tags; auto].
      exfalso. exact (open_ne_close _ _ E2). }
    rewrite is_prefix_app. reflexivity.
  Qed.

  (* ---------------------------------------------------------------- a tag found in the output at a text
     character lies within the text: a tag has its only '<' in front, so it cannot run into an inserted tag *)
  Lemma prefix_no_lt body : has_lt body = false ->
    forall sg, is_prefix body (flatten elem sg) = true -> is_prefix body (texts sg) = true.
  Proof.
    intros Hb. revert body Hb.
    assert (Hgen : forall sg body, has_lt body = false ->
              is_prefix body (flatten elem sg) = true -> is_prefix body (texts sg) = true).
    { induction sg as [|[s|c|] sg IH]; intros body Hb H; cbn [flatten texts] in H |- *.
      - exact H.
      - destruct (is_prefix_app_cases _ _ _ H) as [Hl|[b' [-> Hr]]].
        + apply is_prefix_app_l. exact Hl.
        + rewrite is_prefix_cancel. apply IH; [|exact Hr].
          rewrite has_lt_app in Hb. apply orb_false_iff in Hb. tauto.
      - rewrite open_tag_cons, <- app_comm_cons in H. rewrite (no_lt_prefix_of_lt _ _ Hb H). reflexivity.
      - rewrite close_tag_cons, <- app_comm_cons in H. rewrite (no_lt_prefix_of_lt _ _ Hb H). reflexivity. }
    intros body Hb sg. apply Hgen. exact Hb.
  Qed.

  Lemma tag_prefix_text tg c sg :
    In tg tags -> is_prefix tg (c :: flatten elem sg) = true -> is_prefix tg (c :: texts sg) = true.
  Proof.
    intros Ht H. destruct (tag_shape tg Ht) as [body [-> Hb]]. simpl in *.
    apply andb_prop in H as [H1 H2]. rewrite H1. simpl. apply prefix_no_lt; assumption.
  Qed.

  Lemma no_tag_in_cons c s :
    no_tag_in (c :: s) = true ->
    no_tag_in s = true /\ forall tg, In tg tags -> is_prefix tg (c :: s) = false.
  Proof.
    unfold Markup.no_tag_in. rewrite !forallb_forall. intros H. split.
    - intros tg Ht. specialize (H tg Ht). apply negb_true_iff in H. apply negb_true_iff.
      cbn [infixb] in H. apply orb_false_iff in H. tauto.
    - intros tg Ht. specialize (H tg Ht). apply negb_true_iff in H.
      cbn [infixb] in H. apply orb_false_iff in H. tauto.
  Qed.

  (* ---------------------------------------------------------------- the scanner inverts flatten *)
  Definition opens_in (sg : list seg) : Prop :=
    Forall (fun s => match s with Open c => c = okc \/ c = koc | _ => True end) sg.

  Lemma scan_flatten : forall sg,
    opens_in sg -> no_tag_in (texts sg) = true -> scan_go 0 (flatten elem sg) = explode sg.
  Proof.
    induction sg as [|[s|c|] sg IH]; intros Ho Hn.
    - reflexivity.
    - inversion Ho as [|? ? _ Ho']; subst. clear Ho. cbn [flatten texts explode] in Hn |- *.
      induction s as [|c s IHs]; cbn [app map] in Hn |- *.
      + apply IH; assumption.
      + destruct (no_tag_in_cons _ _ Hn) as [Hn' Hpre].
        rewrite scan_char.
        * f_equal. apply IHs. exact Hn'.
        * intros tg Ht. destruct (is_prefix tg (c :: s ++ flatten elem sg)) eqn:E; [|reflexivity].
          change (s ++ flatten elem sg) with (flatten elem (Text s :: sg)) in E.
          apply tag_prefix_text in E; [|exact Ht]. cbn [texts] in E. rewrite (Hpre tg Ht) in E. discriminate E.
    - inversion Ho as [|? ? Hc Ho']; subst. cbn [flatten texts explode] in Hn |- *.
      rewrite (scan_tag (open_tag elem c) (Open c)).
      + f_equal. apply IH; assumption.
      + rewrite open_tag_cons. discriminate.
      + apply tag_at_open. exact Hc.
    - inversion Ho as [|? ? _ Ho']; subst. cbn [flatten texts explode] in Hn |- *.
      rewrite (scan_tag (close_tag elem) Close).
      + f_equal. apply IH; assumption.
      + rewrite close_tag_cons. discriminate.
      + apply tag_at_close.
  Qed.

  (* reading the flattening of well-nested segments whose texts contain no tag *)
  Lemma read_flatten sg :
    opens_in sg -> no_tag_in (texts sg) = true -> balanced sg ->
    read_markup elem okc koc (flatten elem sg) = Some (texts sg, classes_per_char sg).
  Proof.
    intros Ho Hn Hb. unfold read_markup, scan_markup. rewrite (scan_flatten sg Ho Hn).
    rewrite bal_explode. unfold balanced in Hb. rewrite Hb.
    unfold classes_per_char. rewrite texts_explode, cpc_explode. reflexivity.
  Qed.
End Scan.

(* ---------------------------------------------------------------- the marker's segments only carry its two classes *)
Section Opens.
  Variables elem okc koc : str.
  Variable tagc : path -> option str.
  Hypothesis Htag : forall p c, tagc p = Some c -> c = okc \/ c = koc.
  Notation opens_in := (opens_in okc koc).

  Lemma opens_app a b : opens_in a -> opens_in b -> opens_in (a ++ b).
  Proof. unfold MarkupProofs.opens_in. intros Ha Hb. apply Forall_app. split; assumption. Qed.

  Lemma opens_text s : opens_in [Text s].
  Proof. repeat constructor. Qed.

  Lemma opens_seg_list pre : forall l i fs,
    Forall (fun c => forall p, opens_in (msegs tagc c p)) l -> opens_in (seg_list (msegs tagc) pre i l fs).
  Proof.
    induction l as [|c l IH]; intros i fs HF; [constructor|].
    destruct fs as [|s fs]; [constructor|].
    inversion HF as [|? ? Hc HFl]; subst. simpl.
    apply opens_app; [apply Hc|]. apply (opens_app [Text s]); [apply opens_text|]. apply IH. exact HFl.
  Qed.

  Lemma opens_msegs : forall t pre, opens_in (msegs tagc t pre).
  Proof.
    apply (item_children_ind (fun t => forall pre, opens_in (msegs tagc t pre))).
    intros t IH pre. rewrite msegs_unfold. destruct (is_none t); [constructor|].
    repeat apply opens_app; try apply opens_text.
    - unfold open_segs. destruct (tagc pre) as [c|] eqn:E; [|constructor].
      constructor; [exact (Htag _ _ E)|constructor].
    - apply opens_seg_list. exact IH.
    - unfold close_segs. destruct (tagc pre); repeat constructor.
  Qed.
End Opens.

Lemma tag_class_in okc koc parci ok ko p c :
  tag_class okc koc parci ok ko p = Some c -> c = okc \/ c = koc.
Proof.
  unfold tag_class, css. destruct (mem_path p ok).
  - destruct parci; [destruct (ostr_eqb _ _)|]; intros H; inversion H; auto.
  - destruct (mem_path p ko); [|discriminate].
    destruct parci; [destruct (ostr_eqb _ _)|]; intros H; inversion H; auto.
Qed.

(* ---------------------------------------------------------------- the marker's output read as markup *)
Lemma html_is_flatten okc koc elem parci t ok ko t' :
  tcopy t = Some t' ->
  html okc koc elem parci t ok ko = Some (flatten elem (msegs (tag_class okc koc parci ok ko) t' [])).
Proof.
  intros Ht'. unfold html, mark.
  destruct (mark_go_total okc koc elem parci ok ko t []) as [m Hm]. rewrite Hm.
  f_equal. exact (flat_mark_go okc koc elem parci ok ko t [] m t' Hm Ht').
Qed.

Lemma read_html okc koc elem parci t ok ko t' :
  params_ok elem okc koc = true -> tcopy t = Some t' -> no_tag_in elem okc koc (print true t') = true ->
  exists out, html okc koc elem parci t ok ko = Some out /\
    read_markup elem okc koc out = Some (print true t', owner_class okc koc ok ko t').
Proof.
  intros Hp Ht' Hn. eexists. split; [exact (html_is_flatten _ _ _ _ _ _ _ _ Ht')|].
  rewrite (read_flatten elem okc koc Hp).
  - rewrite texts_msegs.
    rewrite (classes_msegs okc koc ok ko _ (sound_tag_class okc koc ok ko parci) t'). reflexivity.
  - apply opens_msegs. intros p c. apply tag_class_in.
  - rewrite texts_msegs. exact Hn.
  - apply balanced_msegs.
Qed.

(* ---------------------------------------------------------------- the exact criterion: no tag starts at a text character *)
Section Exact.
  Variables elem okc koc : str.
  Hypothesis Hp : params_ok elem okc koc = true.
  Notation tag_at := (tag_at elem okc koc).
  Notation scan_go := (scan_go elem okc koc).
  Notation clean_segs := (clean_segs elem okc koc).
  Notation clean_text := (clean_text elem okc koc).

  Lemma tag_at_not_text s tok n : tag_at s = Some (tok, n) -> forall x, tok <> Text x.
  Proof.
    unfold Markup.tag_at. intros H x.
    destruct (is_prefix (open_tag elem okc) s); [inversion H; discriminate|].
    destruct (is_prefix (open_tag elem koc) s); [inversion H; discriminate|].
    destruct (is_prefix (close_tag elem) s); [inversion H; discriminate|discriminate H].
  Qed.

  (* the tokenizer gives back the segments (cut into characters) iff no tag starts at a text character *)
  Lemma scan_exact : forall sg, opens_in okc koc sg ->
    (scan_go 0 (flatten elem sg) = explode sg <-> clean_segs sg = true).
  Proof.
    induction sg as [|[s|c|] sg IH]; intros Ho.
    - split; reflexivity.
    - inversion Ho as [|? ? _ Ho']; subst. clear Ho. specialize (IH Ho').
      cbn [flatten explode Markup.clean_segs].
      induction s as [|c s IHs]; cbn [app map Markup.clean_text].
      + rewrite IH. reflexivity.
      + cbn [Markup.scan_go]. change (c :: s ++ flatten elem sg) with ((c :: s) ++ flatten elem sg).
        destruct (tag_at ((c :: s) ++ flatten elem sg)) as [[tok n]|] eqn:E.
        * split; [|discriminate]. intros H. inversion H as [[H1 H2]].
          exfalso. exact (tag_at_not_text _ _ _ E _ H1).
        * cbn [andb]. rewrite <- IHs. split; [intros H; inversion H; reflexivity|intros H; rewrite H; reflexivity].
    - inversion Ho as [|? ? Hc Ho']; subst. cbn [flatten explode Markup.clean_segs].
      rewrite (scan_tag elem okc koc (open_tag elem c) (Open c));
        [|rewrite open_tag_cons; discriminate|apply tag_at_open; assumption].
      rewrite <- (IH Ho'). split; [intros H; inversion H; reflexivity|intros H; rewrite H; reflexivity].
    - inversion Ho as [|? ? _ Ho']; subst. cbn [flatten explode Markup.clean_segs].
      rewrite (scan_tag elem okc koc (close_tag elem) Close);
        [|rewrite close_tag_cons; discriminate|apply tag_at_close; assumption].
      rewrite <- (IH Ho'). split; [intros H; inversion H; reflexivity|intros H; rewrite H; reflexivity].
  Qed.

  Lemma clean_of_no_tag sg : opens_in okc koc sg -> no_tag_in elem okc koc (texts sg) = true -> clean_segs sg = true.
  Proof. intros Ho Hn. apply scan_exact; [exact Ho|]. apply scan_flatten; assumption. Qed.

  Lemma read_flatten_clean sg :
    opens_in okc koc sg -> clean_segs sg = true -> balanced sg ->
    read_markup elem okc koc (flatten elem sg) = Some (texts sg, classes_per_char sg).
  Proof.
    intros Ho Hn Hb. unfold read_markup, scan_markup.
    rewrite (proj2 (scan_exact sg Ho) Hn).
    rewrite bal_explode. unfold balanced in Hb. rewrite Hb.
    unfold classes_per_char. rewrite texts_explode, cpc_explode. reflexivity.
  Qed.
End Exact.

Lemma msegs_opens okc koc parci ok ko t' :
  opens_in okc koc (msegs (tag_class okc koc parci ok ko) t' []).
Proof. apply opens_msegs. intros p c. apply tag_class_in. Qed.

Lemma read_html_clean okc koc elem parci t ok ko t' :
  params_ok elem okc koc = true -> tcopy t = Some t' ->
  clean_segs elem okc koc (msegs (tag_class okc koc parci ok ko) t' []) = true ->
  exists out, html okc koc elem parci t ok ko = Some out /\
    read_markup elem okc koc out = Some (print true t', owner_class okc koc ok ko t').
Proof.
  intros Hp Ht' Hn. eexists. split; [exact (html_is_flatten _ _ _ _ _ _ _ _ Ht')|].
  rewrite (read_flatten_clean elem okc koc Hp).
  - rewrite texts_msegs.
    rewrite (classes_msegs okc koc ok ko _ (sound_tag_class okc koc ok ko parci) t'). reflexivity.
  - apply msegs_opens.
  - exact Hn.
  - apply balanced_msegs.
Qed.

(* ---------------------------------------------------------------- the simple sufficient condition on the parameters *)
Lemma quote_free_inj q z : forall a b,
  existsb (N.eqb q) a = false -> existsb (N.eqb q) b = false ->
  is_prefix (a ++ [q; z]) (b ++ [q; z]) = true -> a = b.
Proof.
  induction a as [|x a IH]; intros [|y b] Ha Hb H; simpl in *.
  - reflexivity.
  - apply andb_prop in H as [H _]. rewrite H in Hb. discriminate Hb.
  - apply andb_prop in H as [H _]. apply N.eqb_eq in H. subst x. rewrite N.eqb_refl in Ha. discriminate Ha.
  - apply andb_prop in H as [H1 H2]. apply N.eqb_eq in H1. subst y.
    apply orb_false_iff in Ha as [_ Ha]. apply orb_false_iff in Hb as [_ Hb].
    f_equal. exact (IH _ Ha Hb H2).
Qed.

Lemma open_prefix_open elem a b :
  existsb (N.eqb c_quote) a = false -> existsb (N.eqb c_quote) b = false ->
  is_prefix (open_tag elem a) (open_tag elem b) = true -> a = b.
Proof.
  intros Ha Hb H. unfold open_tag in H.
  rewrite !is_prefix_cancel in H. exact (quote_free_inj _ _ _ _ Ha Hb H).
Qed.

Lemma open_close_apart elem c :
  match elem with x :: _ => negb (N.eqb x c_slash) | [] => true end = true ->
  is_prefix (open_tag elem c) (close_tag elem) = false /\ is_prefix (close_tag elem) (open_tag elem c) = false.
Proof.
  intros H. rewrite open_tag_cons, close_tag_cons. destruct elem as [|x e].
  - split; reflexivity.
  - apply negb_true_iff in H. cbn [is_prefix app]. rewrite N.eqb_refl, H, N.eqb_sym, H. split; reflexivity.
Qed.

Lemma params_simple_ok elem okc koc : params_simple elem okc koc = true -> params_ok elem okc koc = true.
Proof.
  unfold params_simple, params_ok. intros H.
  apply andb_prop in H as [H He]. apply andb_prop in H as [H Hqk]. apply andb_prop in H as [H Hqo].
  rewrite H. apply negb_true_iff in Hqo, Hqk. unfold marker_tags. cbn [forallb andb].
  destruct (open_close_apart elem okc He) as [A1 A2]. destruct (open_close_apart elem koc He) as [B1 B2].
  rewrite !is_prefix_refl, !str_eqb_refl, A1, A2, B1, B2. cbn [negb orb andb].
  assert (X : forall a b, existsb (N.eqb c_quote) a = false -> existsb (N.eqb c_quote) b = false ->
            negb (is_prefix (open_tag elem a) (open_tag elem b)) || str_eqb (open_tag elem a) (open_tag elem b) = true).
  { intros a b Ha Hb. destruct (is_prefix (open_tag elem a) (open_tag elem b)) eqn:E; [|reflexivity].
    rewrite (open_prefix_open _ _ _ Ha Hb E), str_eqb_refl. reflexivity. }
  rewrite (X okc koc Hqo Hqk), (X koc okc Hqk Hqo). reflexivity.
Qed.

(* ---------------------------------------------------------------- well-formed nodes print like their copy *)
(* TraverseProofs.wf_node is the constructor invariant (an explicit Boost force is normalised, ...);
   every tree the parser returns satisfies it at every node (C11_parsed_wellformed, any tables) *)
Lemma wf_force_stable : forall t, all_nodes wf_node t -> force_stable t = true.
Proof.
  apply (item_children_ind (fun t => all_nodes wf_node t -> force_stable t = true)).
  intros t IH Hwf. rewrite force_stable_unfold.
  pose proof (all_nodes_here _ _ Hwf) as Hh. pose proof (all_nodes_children _ _ Hwf) as Hc.
  apply andb_true_intro. split.
  - destruct t as [| | | | | |? ? f []| | | |]; try reflexivity. simpl in Hh |- *.
    rewrite Hh. apply str_eqb_refl.
  - induction (children t) as [|c l IHl]; [reflexivity|].
    inversion IH as [|? ? Hx HF]; subst. inversion Hc as [|? ? Hcx HcF]; subst.
    simpl. rewrite (Hx Hcx), (IHl HF HcF). reflexivity.
Qed.
