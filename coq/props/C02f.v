(* C02f — C02 WITHOUT GUARD: every node's pos / size / head / tail locate its text in the original query for
   EVERY accepted query, F1 inputs included.

   C02.v / C02r.v / C02t.v prove the property under the guard "no text was dropped" and refute it without
   (F1: in `foo :bar` the SearchField has pos 0 and size 8, but prints `foo:bar`).  What F1 changes is the
   PRINTED TEXT of the SearchField (and of everything above it), never a position: pos and size always
   describe the original text, the SearchField's size counts the blank its printed form lacks.  So the
   property holds, guard-free, of the GHOST TREE t' = t with the dropped blank runs put back at the end of the
   field names (Drops.nrel t t': same classes, same pos / size / head / tail and values everywhere, a
   SearchField's name followed by blank text).

     clause of the property text                                statement                      status
     ---------------------------------------------------------  -----------------------------  ------
     "the slice designated by pos and size is the node printed  C02f_statement (located_f):    proved
      without head and tail, the widened slice the node         the slices are the printed
      printed with them (up to numeral re-spelling)"            forms of the node's ghost, up
                                                                to numeral re-spelling (resp)
     "the widened spans of a node's children lie inside the     C02f_statement (tiled)         proved
      node's own span, in order and without overlapping"
     "the widened span of the root is the whole input"          C02f_statement                 proved
     the same, said of the ghost tree as a whole                C02f_ghost_statement           proved
     a node with no SearchField at or below it (the operand of  C02f_no_field_statement        proved
      a field, every term, ...) is located as C02r says, F1
      or not: only field names get text back
     related trees have the same spans                          C02f_same_spans_statement      proved
     every semantic action maps related arguments to related    C02f_action_statement          proved
      results, with the same events (any tables)

   Generated tables.  Lemmas: proofs/SpanDropProofs.v (the ghost is located by running
   SpanRespellProofs.run_action_ospans on the ghosts of the arguments; for search_field the name token is
   replaced by the token that keeps its tail in its lexeme). *)
Require Import Base Decimal Tree GenTree GenParser Lexer Print Actions LR Parser Drops Respace Spans.
Require Import TreeInd LexerProofs ActionProofs LRProofs SpanProofs C01 RespellProofs SpanRespellProofs.
Require Import DropProofs SpanDropProofs.

(* ---- statements *)

(* SpanDropProofs.located_f s d: there is d' with nrel d d' such that d's two spans lie inside s and the slices
   they designate are print false d' and print true d' up to numeral re-spelling (RespellProofs.resp) *)
Definition C02f_statement : Prop :=
  forall s t, parse s = Some (Ok t) ->
    (forall q d, subtree_at t q = Some d -> located_f s d /\ tiled d) /\
    span true t = Some (0%Z, zlen s).

(* SpanRespellProofs.located_r = Spans.located up to resp: C02r's reading of the property *)
Definition C02f_ghost_statement : Prop :=
  forall s t, parse s = Some (Ok t) ->
    exists t', nrel t t' /\
      (forall q d', subtree_at t' q = Some d' -> located_r s d' /\ tiled d') /\
      span true t' = Some (0%Z, zlen s).

Definition C02f_no_field_statement : Prop :=
  forall s t q d, parse s = Some (Ok t) -> subtree_at t q = Some d -> no_field d ->
    located_r s d /\ tiled d.

Definition C02f_same_spans_statement : Prop :=
  forall ht d d', nrel d d' -> span ht d = span ht d'.

Definition C02f_action_statement : Prop :=
  forall a args args' v evs, Forall2 vrel args args' -> run_action a args = Ok (v, evs) ->
    exists v', run_action a args' = Ok (v', evs) /\ vrel v v'.

(* ---- theorems *)

Theorem C02f : C02f_statement.
Proof. exact parse_located_f. Qed.

Theorem C02f_ghost : C02f_ghost_statement.
Proof. exact parse_ghost. Qed.

Theorem C02f_no_field : C02f_no_field_statement.
Proof. intros s t q d Hp Hs Hn. exact (parse_located_no_field s t q d Hp Hs Hn). Qed.

Theorem C02f_same_spans : C02f_same_spans_statement.
Proof. exact nrel_span. Qed.

Theorem C02f_action : C02f_action_statement.
Proof. exact run_action_nrel. Qed.

(* ---- non-vacuity *)

(* the ghost tree, computed from the positions: the name of a SearchField is the source text from its position
   up to its colon (used for the examples only) *)
Fixpoint ghost_of (s : str) (t : item) : item :=
  match t with
  | Term k m v => Term k m v
  | SearchField m name e =>
      match m_pos m, m_size m, m_size (meta_of e) with
      | Some p, Some sz, Some se =>
          SearchField m (slice s p (p + (sz - 1 - (zlen (head_of e) + se + zlen (tail_of e)))))%Z (ghost_of s e)
      | _, _, _ => SearchField m name (ghost_of s e)
      end
  | Grp k m e => Grp k m (ghost_of s e)
  | Range m lo hi il ih => Range m (ghost_of s lo) (ghost_of s hi) il ih
  | Fuzzy m x d i => Fuzzy m (ghost_of s x) d i
  | Proximity m x d i => Proximity m (ghost_of s x) d i
  | Boost m x d i => Boost m (ghost_of s x) d i
  | Op k m ops => Op k m (map (ghost_of s) ops)
  | Unary k m a => Unary k m (ghost_of s a)
  | ORange k m a incl => ORange k m (ghost_of s a) incl
  | NoneItem m => NoneItem m
  end.

(* F1's witness `foo :bar`: the SearchField spans (0, 8) and prints `foo:bar` (7 characters: spans_okb fails on
   it, C02_f1_clauses); its ghost has the name `foo ` and is located EXACTLY (SpanProofs' predicate, no
   numeral here): its printed form is the input *)
Example C02f_f1_witness :
  exists t, parse f1_witness = Some (Ok t) /\ spans_okb 0 t = false /\
    span false t = Some (0, 8)%Z /\ print false t = [102;111;111;58;98;97;114]%N /\
    nrel t (ghost_of f1_witness t) /\
    print true (ghost_of f1_witness t) = f1_witness /\ spans_okb 0 (ghost_of f1_witness t) = true /\
    (forall q d, subtree_at t q = Some d -> located_f f1_witness d /\ tiled d).
Proof.
  assert (Hp : exists t, parse f1_witness = Some (Ok t)) by (eexists; vm_compute; reflexivity).
  destruct Hp as [t Hp]. exists t. split; [exact Hp|].
  destruct (C02f _ _ Hp) as [Hall _].
  assert (E : Some (Ok t) = parse f1_witness) by (symmetry; exact Hp).
  vm_compute in E. inversion E; subst t; clear E.
  split; [vm_compute; reflexivity|]. split; [vm_compute; reflexivity|]. split; [vm_compute; reflexivity|].
  split; [|split; [vm_compute; reflexivity|split; [vm_compute; reflexivity|exact Hall]]].
  vm_compute. eapply nr_sf with (w := [32]%N); [reflexivity|reflexivity|constructor].
Qed.

(* `f :a^1 AND g  :  "x y"~2 OR h:(i :j)` (three blank runs before colons, every production around them): the
   ghost computed from the positions is related to the tree, is located exactly and prints the input *)
Definition ex_loss : str :=
  [102;32;58;97;94;49;32;65;78;68;32;103;32;32;58;32;32;34;120;32;121;34;126;50;32;79;82;32;104;58;40;105;32;58;106;41]%N.

Example C02f_nonvacuous :
  exists t, parse ex_loss = Some (Ok t) /\ spans_okb 0 t = false /\ print true t <> ex_loss /\
    print true (ghost_of ex_loss t) = ex_loss /\ spans_okb 0 (ghost_of ex_loss t) = true /\
    span true t = Some (0, 36)%Z /\
    (forall q d, subtree_at t q = Some d -> located_f ex_loss d /\ tiled d).
Proof.
  assert (Hp : exists t, parse ex_loss = Some (Ok t)) by (eexists; vm_compute; reflexivity).
  destruct Hp as [t Hp]. exists t. split; [exact Hp|].
  destruct (C02f _ _ Hp) as [Hall Hroot].
  assert (E : Some (Ok t) = parse ex_loss) by (symmetry; exact Hp).
  vm_compute in E. inversion E; subst t; clear E.
  split; [vm_compute; reflexivity|]. split; [vm_compute; discriminate|].
  split; [vm_compute; reflexivity|]. split; [vm_compute; reflexivity|]. split; [exact Hroot|exact Hall].
Qed.

Print Assumptions C02f.
Print Assumptions C02f_ghost.
Print Assumptions C02f_no_field.
Print Assumptions C02f_same_spans.
Print Assumptions C02f_action.
Print Assumptions C02f_f1_witness.
Print Assumptions C02f_nonvacuous.
