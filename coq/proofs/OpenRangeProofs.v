(* OpenRangeProofs.v — specification vocabulary and lemmas for OpenRangeTransformer
   (model: model/OpenRange.v).  Statements of property C12 are in props/C12.v. *)
Require Import Base Decimal Tree GenTree GenVisitors Visitor Eq OpenRange TreeInd.
From Coq Require Import Lia Relations.

(* ================================================================ specification vocabulary *)

(* a range bounded below only / above only ("one-sided"): the other bound is the wildcard `*` *)
Definition low_only (t : item) : Prop :=
  match t with Range _ lo hi _ _ => is_wildcard lo = false /\ is_wildcard hi = true | _ => False end.
Definition high_only (t : item) : Prop :=
  match t with Range _ lo hi _ _ => is_wildcard lo = true /\ is_wildcard hi = false | _ => False end.

(* one merge: two one-sided Range elements OF THE SAME LIST, of opposite sides; the first one
   receives the bound of the second one together with its inclusiveness and keeps its own
   pos/size/head/tail/name, the second one disappears (with its head/tail); nothing else moves *)
Inductive merge_step : list item -> list item -> Prop :=
| MS_low_high l1 l2 l3 m1 lo1 hi1 il1 ih1 m2 lo2 hi2 il2 ih2 :
    low_only (Range m1 lo1 hi1 il1 ih1) -> high_only (Range m2 lo2 hi2 il2 ih2) ->
    merge_step (l1 ++ Range m1 lo1 hi1 il1 ih1 :: l2 ++ Range m2 lo2 hi2 il2 ih2 :: l3)
               (l1 ++ Range m1 lo1 hi2 il1 ih2 :: l2 ++ l3)
| MS_high_low l1 l2 l3 m1 lo1 hi1 il1 ih1 m2 lo2 hi2 il2 ih2 :
    high_only (Range m1 lo1 hi1 il1 ih1) -> low_only (Range m2 lo2 hi2 il2 ih2) ->
    merge_step (l1 ++ Range m1 lo1 hi1 il1 ih1 :: l2 ++ Range m2 lo2 hi2 il2 ih2 :: l3)
               (l1 ++ Range m1 lo2 hi1 il2 ih1 :: l2 ++ l3).

Definition merge_steps : list item -> list item -> Prop := clos_refl_trans_1n (list item) merge_step.

(* nothing is left to merge: no range bounded below only together with one bounded above only *)
Definition fully_merged (l : list item) : Prop :=
  forall r1 r2, In r1 l -> In r2 l -> low_only r1 -> high_only r2 -> False.

(* From/To nodes anywhere in a tree *)
Fixpoint has_openrange (t : item) : bool :=
  match t with
  | ORange _ _ _ _ => true
  | Term _ _ _ | NoneItem _ => false
  | SearchField _ _ e | Grp _ _ e | Boost _ e _ _ => has_openrange e
  | Fuzzy _ x _ _ | Proximity _ x _ _ => has_openrange x
  | Unary _ _ a => has_openrange a
  | Range _ lo hi _ _ => has_openrange lo || has_openrange hi
  | Op _ _ ops => existsb has_openrange ops
  end.

Definition add_tail (t : item) (s : str) : item := set_tail t (tail_of t ++ s).
Definition add_head_ (t : item) (s : str) : item := set_head t (head_of t ++ s).
Definition star (head tail : str) : item := Term KWord (mkMeta None None head tail None) [42%N].
Definition is_and (k : opk) : bool := match k with KAnd => true | _ => false end.

(* the conversion, as a relation between input and output.
   CV_from / CV_to : a comparison becomes the Range with the same pos/size/head/tail (no name), the
     converted bound on its side (add_head appended to its tail, resp. head), the same inclusiveness
     on that side, a fresh `*` and inclusive=true on the other side.
   CV_copy : any other node is its own clone_item (see clone_item_wf below: same class, attributes
     and layout, attached name dropped) over the converted children — one output child per input
     child, in order, except that with merging the converted operands of an AND go through
     merge steps until nothing is left to merge. *)
Inductive Conv (merge : bool) (ah : str) : item -> item -> Prop :=
| CV_from m a incl a' :
    Conv merge ah a a' ->
    Conv merge ah (ORange KFrom m a incl) (Range (clone_meta m) (add_tail a' ah) (star ah []) incl true)
| CV_to m a incl a' :
    Conv merge ah a a' ->
    Conv merge ah (ORange KTo m a incl) (Range (clone_meta m) (star [] ah) (add_head_ a' ah) true incl)
| CV_copy t c cs cs' t' :
    (forall k m a i, t <> ORange k m a i) ->
    clone_item t = Some c ->
    Forall2 (Conv merge ah) (children t) cs ->
    (if merge && match t with Op KAnd _ _ => true | _ => false end
     then merge_steps cs cs' /\ fully_merged cs' else cs' = cs) ->
    set_children c cs' = Some t' ->
    Conv merge ah t t'.

(* ---- meaning of ranges over an arbitrary ordered value type *)
Section Semantics.
  Variable V : Type.
  Variable le : V -> V -> bool.              (* v <= w ; no property of `le` is needed *)
  Variable bv : item -> option V.            (* value of a bound sub-tree; None = unbounded *)
  Variable opq : item -> bool.               (* truth of an operand that is not a range *)

  Definition lt (a b : V) : bool := negb (le b a).
  Definition low_ok (x : V) (lo : item) (il : bool) : bool :=
    match bv lo with None => true | Some v => if il then le v x else lt v x end.
  Definition high_ok (x : V) (hi : item) (ih : bool) : bool :=
    match bv hi with None => true | Some v => if ih then le x v else lt x v end.
  (* does field value x satisfy the operand *)
  Definition holds (x : V) (t : item) : bool :=
    match t with
    | Range _ lo hi il ih => low_ok x lo il && high_ok x hi ih
    | _ => opq t
    end.
  Definition conj (x : V) (l : list item) : bool := forallb (holds x) l.

  Hypothesis wild_unbounded : forall b, is_wildcard b = true -> bv b = None.

  Lemma merge_step_conj x l l' : merge_step l l' -> conj x l = conj x l'.
  Proof.
    intros H. destruct H as [l1 l2 l3 m1 lo1 hi1 il1 ih1 m2 lo2 hi2 il2 ih2 [_ Hh1] [Hl2 _]
                            |l1 l2 l3 m1 lo1 hi1 il1 ih1 m2 lo2 hi2 il2 ih2 [Hl1 _] [_ Hh2]];
      unfold conj; rewrite !forallb_app; simpl; rewrite !forallb_app; simpl;
      unfold low_ok, high_ok.
    - rewrite (wild_unbounded _ Hh1), (wild_unbounded _ Hl2).
      destruct (forallb (holds x) l1), (forallb (holds x) l2), (forallb (holds x) l3),
        (bv lo1), (bv hi2); simpl;
        repeat match goal with |- context [if ?b then _ else _] => destruct b; simpl end;
        try reflexivity;
        repeat match goal with |- context [le ?a ?b] => destruct (le a b); simpl end;
        repeat match goal with |- context [lt ?a ?b] => destruct (lt a b); simpl end; reflexivity.
    - rewrite (wild_unbounded _ Hl1), (wild_unbounded _ Hh2).
      destruct (forallb (holds x) l1), (forallb (holds x) l2), (forallb (holds x) l3),
        (bv lo2), (bv hi1); simpl;
        repeat match goal with |- context [if ?b then _ else _] => destruct b; simpl end;
        try reflexivity;
        repeat match goal with |- context [le ?a ?b] => destruct (le a b); simpl end;
        repeat match goal with |- context [lt ?a ?b] => destruct (lt a b); simpl end; reflexivity.
  Qed.

  Lemma merge_steps_conj x l l' : merge_steps l l' -> conj x l = conj x l'.
  Proof.
    induction 1 as [|a b c Hs _ IH]; [reflexivity|].
    rewrite (merge_step_conj x _ _ Hs). exact IH.
  Qed.
End Semantics.

(* ================================================================ lemmas on the model *)

Lemma is_wildcard_spec t : is_wildcard t = true <-> exists m, t = Term KWord m [42%N].
Proof.
  unfold is_wildcard. split.
  - destruct t as [[]| | []| | | | |[]|[]|[]|]; try (vm_compute; discriminate).
    unfold item_eqb. simpl. unfold attrs_eqb. simpl. intros H.
    repeat (apply andb_prop in H; destruct H as [H _]). apply str_eqb_eq in H. subst. eauto.
  - intros [m ->]. reflexivity.
Qed.

Lemma isinstance_range t :
  isinstance (cls_of t) CRange = true -> exists m lo hi il ih, t = Range m lo hi il ih.
Proof. destruct t as [[]| | []| | | | |[]|[]|[]|]; try (vm_compute; discriminate). eauto 6. Qed.

Lemma bound_side_low t : bound_side t = Some SLow <-> low_only t.
Proof.
  unfold bound_side, low_only.
  destruct t as [[]| | []|m lo hi il ih | | | |[]|[]|[]|]; try (vm_compute; split; [discriminate|tauto]).
  change (isinstance (cls_of (Range m lo hi il ih)) CRange) with true. cbv iota.
  destruct (is_wildcard lo), (is_wildcard hi); simpl; split; intros H;
    try discriminate; try (destruct H; discriminate); auto.
Qed.

Lemma bound_side_high t : bound_side t = Some SHigh <-> high_only t.
Proof.
  unfold bound_side, high_only.
  destruct t as [[]| | []|m lo hi il ih | | | |[]|[]|[]|]; try (vm_compute; split; [discriminate|tauto]).
  change (isinstance (cls_of (Range m lo hi il ih)) CRange) with true. cbv iota.
  destruct (is_wildcard lo), (is_wildcard hi); simpl; split; intros H;
    try discriminate; try (destruct H; discriminate); auto.
Qed.

Lemma bound_side_range t s : bound_side t = Some s -> exists m lo hi il ih, t = Range m lo hi il ih.
Proof.
  intros H. destruct s.
  - apply bound_side_low in H. destruct t; try contradiction. eauto 6.
  - apply bound_side_high in H. destruct t; try contradiction. eauto 6.
Qed.

(* ---- upd *)
Lemma upd_split : forall l j f r,
  nth_error l j = Some r ->
  exists l1 l2, l = l1 ++ r :: l2 /\ length l1 = j /\ upd j f l = l1 ++ f r :: l2.
Proof.
  induction l as [|x l IH]; intros [|j] f r H; simpl in H; try discriminate.
  - inversion H; subst. exists [], l. auto.
  - destruct (IH j f r H) as [l1 [l2 [H1 [H2 H3]]]].
    exists (x :: l1), l2. simpl. rewrite H3, H2. subst l. auto.
Qed.

Lemma nth_error_upd_other : forall l i j f, i <> j -> nth_error (upd j f l) i = nth_error l i.
Proof.
  induction l as [|x l IH]; intros [|i] [|j] f H; simpl; try reflexivity; try congruence.
  apply IH. congruence.
Qed.

Lemma nth_error_upd_same : forall l j f r,
  nth_error l j = Some r -> nth_error (upd j f l) j = Some (f r).
Proof.
  induction l as [|x l IH]; intros [|j] f r H; simpl in *; try discriminate.
  - inversion H; reflexivity.
  - apply IH. exact H.
Qed.

Lemma nth_error_upd_inv : forall l i j f r,
  nth_error (upd j f l) i = Some r ->
  (i <> j /\ nth_error l i = Some r) \/ (i = j /\ exists r0, nth_error l j = Some r0 /\ r = f r0).
Proof.
  intros l i j f r H. destruct (Nat.eq_dec i j) as [->|Hne].
  - right. split; [reflexivity|].
    destruct (nth_error l j) as [r0|] eqn:Hn.
    + rewrite (nth_error_upd_same _ _ f _ Hn) in H. inversion H. eauto.
    + exfalso. apply nth_error_None in Hn.
      assert (Hl : length (upd j f l) = length l).
      { clear. revert j. induction l as [|x l IH]; intros [|j]; simpl; auto. }
      assert (nth_error (upd j f l) j = None) by (apply nth_error_None; lia). congruence.
  - left. rewrite nth_error_upd_other in H by exact Hne. auto.
Qed.

(* ---- the joined range *)
Lemma join_opposite s c s1 r :
  bound_side c = Some s -> bound_side r = Some s1 -> s1 <> s ->
  bound_side (join_range s c r) = None /\
  forall l1 l2 l3, merge_step (l1 ++ r :: l2 ++ c :: l3) (l1 ++ join_range s c r :: l2 ++ l3).
Proof.
  intros Hc Hr Hne.
  destruct (bound_side_range _ _ Hc) as [m2 [lo2 [hi2 [il2 [ih2 ->]]]]].
  destruct (bound_side_range _ _ Hr) as [m1 [lo1 [hi1 [il1 [ih1 ->]]]]].
  destruct s, s1; try congruence.
  - apply bound_side_low in Hc. apply bound_side_high in Hr. split.
    + simpl in *. destruct Hc as [Hc1 Hc2], Hr as [Hr1 Hr2].
      unfold bound_side. change (isinstance (cls_of (Range m1 lo2 hi1 il2 ih1)) CRange) with true.
      cbv iota. rewrite Hc1, Hr2. reflexivity.
    + intros l1 l2 l3. simpl. apply MS_high_low; assumption.
  - apply bound_side_high in Hc. apply bound_side_low in Hr. split.
    + simpl in *. destruct Hc as [Hc1 Hc2], Hr as [Hr1 Hr2].
      unfold bound_side. change (isinstance (cls_of (Range m1 lo1 hi2 il1 ih2)) CRange) with true.
      cbv iota. rewrite Hc2, Hr1. reflexivity.
    + intros l1 l2 l3. simpl. apply MS_low_high; assumption.
Qed.

(* ---- invariant of the loop of visit_and_operation *)
Definition minv (st : mstate) : Prop :=
  NoDup (m_pending st) /\
  (forall j, In j (m_pending st) ->
     exists r s0, nth_error (m_emitted st) j = Some r /\ bound_side r = Some s0 /\ m_side st = Some s0) /\
  (forall i r, nth_error (m_emitted st) i = Some r -> bound_side r <> None -> In i (m_pending st)).

Lemma oside_eqb_true a s : oside_eqb a (Some s) = true -> a = Some s.
Proof. destruct a as [[]|], s; simpl; intros H; try discriminate; reflexivity. Qed.

Lemma oside_eqb_false s0 s : oside_eqb (Some s0) (Some s) = false -> s0 <> s.
Proof. destruct s0, s; simpl; intros H; try discriminate; congruence. Qed.

Lemma nth_error_snoc_inv {A} (l : list A) c i r :
  nth_error (l ++ [c]) i = Some r -> (i < length l /\ nth_error l i = Some r) \/ (i = length l /\ r = c).
Proof.
  intros H. destruct (Nat.lt_ge_cases i (length l)) as [Hlt|Hge].
  - left. rewrite nth_error_app1 in H by exact Hlt. auto.
  - right. rewrite nth_error_app2 in H by exact Hge.
    destruct (i - length l) as [|k] eqn:Hk; simpl in H.
    + inversion H. split; [lia|reflexivity].
    + destruct k; discriminate.
Qed.

Lemma NoDup_app_snoc {A} (l : list A) x : NoDup l -> ~ In x l -> NoDup (l ++ [x]).
Proof.
  induction 1 as [|y l Hy Hnd IH]; intros Hx; simpl.
  - repeat constructor. intros [].
  - constructor.
    + intros Hin. apply in_app_or in Hin. destruct Hin as [Hin|[<-|[]]]; [contradiction|].
      apply Hx. left. reflexivity.
    + apply IH. intros Hin. apply Hx. right. exact Hin.
Qed.

Lemma pending_lt st j : minv st -> In j (m_pending st) -> j < length (m_emitted st).
Proof.
  intros [_ [Hp _]] Hin. destruct (Hp j Hin) as [r [s0 [Hn _]]].
  apply nth_error_Some. congruence.
Qed.

Lemma mstep_spec st c rest :
  minv st ->
  minv (mstep st c) /\
  (m_emitted (mstep st c) ++ rest = m_emitted st ++ c :: rest \/
   merge_step (m_emitted st ++ c :: rest) (m_emitted (mstep st c) ++ rest)).
Proof.
  intros Hinv. pose proof Hinv as [Hnd [Hp Hq]].
  unfold mstep. destruct (bound_side c) as [s|] eqn:Hc.
  - destruct (m_pending st) as [|j prest] eqn:Hpend.
    + (* first pending range *)
      split; [|left; simpl; rewrite <- app_assoc; reflexivity].
      split; [|split]; simpl.
      * repeat constructor. intros [].
      * intros j [<-|[]]. exists c, s. rewrite nth_error_app2, Nat.sub_diag by lia. auto.
      * intros i r Hn Hb. apply nth_error_snoc_inv in Hn. destruct Hn as [[_ Hn]|[-> _]]; [|auto].
        exfalso. exact (Hq i r Hn Hb).
    + destruct (oside_eqb (m_side st) (Some s)) eqn:Hs.
      * (* same side: one more pending range *)
        apply oside_eqb_true in Hs.
        split; [|left; simpl; rewrite <- app_assoc; reflexivity].
        split; [|split]; cbn [m_emitted m_pending m_side].
        -- change (j :: prest ++ [length (m_emitted st)]) with ((j :: prest) ++ [length (m_emitted st)]).
           apply NoDup_app_snoc; [exact Hnd|].
           intros Hin. rewrite <- Hpend in Hin. apply (pending_lt st _ Hinv) in Hin. lia.
        -- change (j :: prest ++ [length (m_emitted st)]) with ((j :: prest) ++ [length (m_emitted st)]).
           intros j0 Hin. apply in_app_or in Hin. destruct Hin as [Hin|[<-|[]]].
           ++ destruct (Hp j0 Hin) as [r [s0 [Hn [Hb Hsd]]]]. exists r, s0.
              rewrite nth_error_app1 by (apply nth_error_Some; congruence).
              repeat split; auto. congruence.
           ++ exists c, s. rewrite nth_error_app2, Nat.sub_diag by lia. auto.
        -- change (j :: prest ++ [length (m_emitted st)]) with ((j :: prest) ++ [length (m_emitted st)]).
           intros i r Hn Hb. apply in_or_app.
           apply nth_error_snoc_inv in Hn. destruct Hn as [[_ Hn]|[-> _]]; [left|right; left; reflexivity].
           exact (Hq i r Hn Hb).
      * (* other side: join into the first pending range, drop c *)
        destruct (Hp j (or_introl eq_refl)) as [r [s0 [Hn [Hb Hsd]]]].
        rewrite Hsd in Hs. apply oside_eqb_false in Hs.
        destruct (join_opposite s c s0 r Hc Hb Hs) as [Hjn Hstep].
        destruct (upd_split _ _ (join_range s c) _ Hn) as [l1 [l2 [Hl [Hlen Hupd]]]].
        inversion Hnd as [|? ? Hnotin Hnd']; subst.
        split.
        -- split; [|split]; simpl.
           ++ exact Hnd'.
           ++ intros j0 Hin.
              assert (Hne : j0 <> length l1) by (intros ->; contradiction).
              destruct (Hp j0) as [r0 [s1 [Hn0 [Hb0 Hsd0]]]]; [right; exact Hin|].
              exists r0, s1. rewrite nth_error_upd_other by exact Hne. auto.
           ++ intros i r0 Hn0 Hb0. apply nth_error_upd_inv in Hn0.
              destruct Hn0 as [[Hne Hn0]|[-> [r1 [Hn1 ->]]]].
              ** pose proof (Hq i r0 Hn0 Hb0) as Hin.
                 destruct Hin as [<-|Hin]; [congruence|exact Hin].
              ** rewrite Hn in Hn1. inversion Hn1; subst r1. congruence.
        -- right. simpl. rewrite Hupd, Hl. rewrite <- !app_assoc. simpl. apply Hstep.
  - (* not a one-sided range *)
    split; [|left; simpl; rewrite <- app_assoc; reflexivity].
    split; [|split]; simpl.
    + exact Hnd.
    + intros j Hin. destruct (Hp j Hin) as [r [s0 [Hn [Hb Hsd]]]]. exists r, s0.
      rewrite nth_error_app1 by (apply nth_error_Some; congruence). auto.
    + intros i r Hn Hb. apply nth_error_snoc_inv in Hn. destruct Hn as [[_ Hn]|[_ ->]]; [|congruence].
      exact (Hq i r Hn Hb).
Qed.

Lemma fold_mstep_spec : forall rest st,
  minv st ->
  minv (fold_left mstep rest st) /\
  merge_steps (m_emitted st ++ rest) (m_emitted (fold_left mstep rest st)).
Proof.
  induction rest as [|c rest IH]; intros st Hinv; simpl.
  - split; [exact Hinv|]. rewrite app_nil_r. constructor.
  - destruct (mstep_spec st c rest Hinv) as [Hinv' Hs].
    destruct (IH _ Hinv') as [Hfin Hsteps]. split; [exact Hfin|].
    destruct Hs as [Heq|Hstep].
    + rewrite <- Heq. exact Hsteps.
    + econstructor 2; [exact Hstep|exact Hsteps].
Qed.

Lemma minv_init : minv (mkM [] [] None).
Proof.
  split; [constructor|]. split; simpl.
  - intros j [].
  - intros i r H. destruct i; discriminate.
Qed.

Theorem merge_children_spec l :
  merge_steps l (merge_children l) /\ fully_merged (merge_children l).
Proof.
  destruct (fold_mstep_spec l _ minv_init) as [[_ [Hp Hq]] Hsteps]. split; [exact Hsteps|].
  intros r1 r2 Hin1 Hin2 Hlo Hhi. unfold merge_children in *.
  apply In_nth_error in Hin1. apply In_nth_error in Hin2.
  destruct Hin1 as [i1 Hn1], Hin2 as [i2 Hn2].
  apply bound_side_low in Hlo. apply bound_side_high in Hhi.
  assert (H1 : In i1 (m_pending (fold_left mstep l (mkM [] [] None)))) by (apply (Hq _ _ Hn1); congruence).
  assert (H2 : In i2 (m_pending (fold_left mstep l (mkM [] [] None)))) by (apply (Hq _ _ Hn2); congruence).
  destruct (Hp _ H1) as [r1' [s1 [Hn1' [Hb1 Hs1]]]]. destruct (Hp _ H2) as [r2' [s2 [Hn2' [Hb2 Hs2]]]].
  congruence.
Qed.

(* ---- consequences of the step relation *)
Definition is_range (t : item) : bool := match t with Range _ _ _ _ _ => true | _ => false end.

Lemma merge_step_not_range l l' :
  merge_step l l' -> filter (fun c => negb (is_range c)) l' = filter (fun c => negb (is_range c)) l.
Proof. intros []; rewrite !filter_app; simpl; rewrite !filter_app; reflexivity. Qed.

Lemma merge_steps_not_range l l' :
  merge_steps l l' -> filter (fun c => negb (is_range c)) l' = filter (fun c => negb (is_range c)) l.
Proof.
  induction 1 as [|a b c Hs _ IH]; [reflexivity|]. rewrite IH. apply merge_step_not_range. exact Hs.
Qed.

Lemma merge_step_no_openrange l l' :
  merge_step l l' -> existsb has_openrange l = false -> existsb has_openrange l' = false.
Proof.
  intros []; rewrite !existsb_app; simpl; rewrite !existsb_app; simpl; intros Hex;
    repeat match goal with H : _ || _ = false |- _ => apply Bool.orb_false_iff in H; destruct H end;
    repeat match goal with H : ?x = false |- context [?x] => rewrite H end; reflexivity.
Qed.

Lemma merge_steps_no_openrange l l' :
  merge_steps l l' -> existsb has_openrange l = false -> existsb has_openrange l' = false.
Proof.
  induction 1 as [|a b c Hs _ IH]; [auto|]. intros H. apply IH. eapply merge_step_no_openrange; eauto.
Qed.

Lemma merge_steps_length l l' : merge_steps l l' -> length l' <= length l.
Proof.
  induction 1 as [|a b c Hs _ IH]; [lia|].
  assert (length b < length a); [|lia].
  destruct Hs; rewrite !app_length; simpl; rewrite !app_length; simpl; lia.
Qed.

(* ================================================================ the transformer *)

Lemma open_range_unfold merge ah t :
  open_range merge ah t =
  match visit_children (open_range merge ah) (children t) with
  | None => None
  | Some cs' => node_result merge ah t cs'
  end.
Proof. destruct t; reflexivity. Qed.

Lemma visit_children_Forall2 (f : item -> option item) (P : item -> item -> Prop) : forall l,
  Forall (fun c => exists c', f c = Some c' /\ P c c') l ->
  exists l', visit_children f l = Some l' /\ Forall2 P l l'.
Proof.
  induction l as [|c l IH]; intros HF; simpl.
  - exists []. auto.
  - inversion HF as [|? ? [c' [Hc HP]] HFl]; subst.
    destruct (IH HFl) as [l' [Hl HF2]]. rewrite Hc, Hl. exists (c' :: l'). auto.
Qed.

Lemma visit_children_map (f : item -> option item) : forall l l',
  visit_children f l = Some l' -> Forall2 (fun c c' => f c = Some c') l l'.
Proof.
  induction l as [|c l IH]; intros l' H; simpl in H.
  - inversion H. constructor.
  - destruct (f c) as [c'|] eqn:Hc; [|discriminate].
    destruct (visit_children f l) as [cs|] eqn:Hl; [|discriminate].
    inversion H; subst. constructor; auto.
Qed.

Lemma clone_wildcard : clone_item wildcard_word = Some wildcard_word.
Proof. vm_compute. reflexivity. Qed.

(* the default copy never fails and gives a node that accepts as many children as the original *)
Lemma generic_result_total t cs' :
  length cs' = length (children t) ->
  exists c t', clone_item t = Some c /\ set_children c cs' = Some t' /\ generic_result t cs' = Some t'.
Proof.
  unfold generic_result.
  destruct t as [[]| | []| | m x d [] | m x d [] | m e f [] |k m ops|[]|[]|]; simpl; intros Hl;
    try (destruct cs'; eexists; eexists; repeat split; reflexivity);
    repeat (destruct cs' as [|? cs']; simpl in Hl; try discriminate Hl);
    eexists; eexists; repeat split; reflexivity.
Qed.

Definition conv_ok (merge : bool) (ah : str) (t : item) : Prop :=
  exists t', open_range merge ah t = Some t' /\ Conv merge ah t t' /\ has_openrange t' = false.

Lemma Forall2_length_ {A B} (P : A -> B -> Prop) l l' : Forall2 P l l' -> length l' = length l.
Proof. induction 1; simpl; congruence. Qed.

Lemma Forall2_impl_ {A B} (P Q : A -> B -> Prop) l l' :
  (forall a b, P a b -> Q a b) -> Forall2 P l l' -> Forall2 Q l l'.
Proof. intros H. induction 1; constructor; auto. Qed.

Lemma has_openrange_set_meta t m : has_openrange (set_meta t m) = has_openrange t.
Proof. destruct t; reflexivity. Qed.

(* has_openrange of a node rebuilt from a clone *)
Lemma set_children_no_openrange t c cs' t' :
  (forall k m a i, t <> ORange k m a i) ->
  clone_item t = Some c -> set_children c cs' = Some t' ->
  existsb has_openrange cs' = false -> has_openrange t' = false.
Proof.
  intros Hno Hc Hs Hex.
  destruct t as [[]| | []| | m x d [] | m x d [] | m e f [] |k m ops|[]|k m a i|]; simpl in Hc;
    try (exfalso; eapply Hno; reflexivity);
    inversion Hc; subst c; clear Hc.
  all: try (simpl in Hs; inversion Hs; subst t'; exact Hex).
  all: repeat (destruct cs' as [|? cs']; simpl in Hs; try discriminate Hs);
    inversion Hs; subst t'; simpl in *;
    repeat match goal with H : _ || _ = false |- _ => apply Bool.orb_false_iff in H; destruct H end;
    repeat match goal with H : ?x = false |- context [?x] => rewrite H end; auto.
Qed.

Theorem open_range_conv merge ah : forall t, conv_ok merge ah t.
Proof.
  apply item_children_ind. intros t IH. unfold conv_ok.
  rewrite open_range_unfold.
  assert (IH' : Forall (fun c => exists c', open_range merge ah c = Some c' /\
                                  (Conv merge ah c c' /\ has_openrange c' = false)) (children t)).
  { eapply Forall_impl; [|exact IH]. intros c [c' [H1 H2]]. eauto. }
  destruct (visit_children_Forall2 _ _ _ IH') as [cs [Hvc HF2]]. rewrite Hvc.
  assert (HFc : Forall2 (Conv merge ah) (children t) cs).
  { eapply Forall2_impl_; [|exact HF2]. intros a b [H _]. exact H. }
  assert (Hno : existsb has_openrange cs = false).
  { clear -HF2. induction HF2 as [|a b l l' [_ Hb] _ IHl]; simpl; [reflexivity|]. rewrite Hb, IHl. reflexivity. }
  pose proof (Forall2_length_ _ _ _ HFc) as Hlen.
  assert (Hgeneric : (forall k m a i, t <> ORange k m a i) ->
                     (match t with Op KAnd _ _ => merge | _ => false end) = false ->
                     exists t', generic_result t cs = Some t' /\ Conv merge ah t t' /\ has_openrange t' = false).
  { intros Hnot Hm. destruct (generic_result_total t cs Hlen) as [c [t' [Hc [Hs Hg]]]].
    exists t'. split; [exact Hg|]. split.
    - eapply CV_copy with (cs := cs) (cs' := cs); eauto.
      replace (merge && match t with Op KAnd _ _ => true | _ => false end) with false; [reflexivity|].
      destruct merge; [|reflexivity]. destruct t as [| | | | | | |[]| | |]; simpl in *; congruence.
    - eapply set_children_no_openrange; eauto. }
  unfold node_result.
  destruct t as [[]| | []| | | | |[]|[]|[] m a incl|];
    try (apply Hgeneric; [intros; discriminate|reflexivity]).
  - (* AndOperation *)
    change (dispatch gen_methods_OpenRangeTransformer (cls_of (Op KAnd m ops))) with (Some CAndOperation).
    cbv iota. destruct merge.
    + destruct (merge_children_spec cs) as [Hsteps Hfull].
      eexists. split; [reflexivity|]. split.
      * eapply CV_copy with (cs := cs) (cs' := merge_children cs);
          [intros; discriminate|reflexivity|exact HFc|simpl; auto|reflexivity].
      * simpl. eapply merge_steps_no_openrange; eauto.
    + apply Hgeneric; [intros; discriminate|reflexivity].
  - (* From *)
    change (dispatch gen_methods_OpenRangeTransformer (cls_of (ORange KFrom m a incl))) with (Some CFrom).
    cbv iota. simpl in HFc, Hlen, Hno. inversion HFc as [|? a' ? ? Ha HFnil]; subst. inversion HFnil; subst.
    unfold from_to. rewrite clone_wildcard. eexists. split; [reflexivity|]. split.
    + exact (CV_from merge ah m a incl a' Ha).
    + simpl in *. apply Bool.orb_false_iff in Hno. destruct Hno as [Hno _].
      unfold set_tail. rewrite has_openrange_set_meta, Hno. reflexivity.
  - (* To *)
    change (dispatch gen_methods_OpenRangeTransformer (cls_of (ORange KTo m a incl))) with (Some CTo).
    cbv iota. simpl in HFc, Hlen, Hno. inversion HFc as [|? a' ? ? Ha HFnil]; subst. inversion HFnil; subst.
    unfold from_to. rewrite clone_wildcard. eexists. split; [reflexivity|]. split.
    + exact (CV_to merge ah m a incl a' Ha).
    + simpl in *. apply Bool.orb_false_iff in Hno. destruct Hno as [Hno _].
      unfold set_head. rewrite has_openrange_set_meta, Hno. reflexivity.
Qed.

(* ---- what clone_item changes on a well-formed node: nothing but the attached name.
   A node built by luqum's constructors always satisfies wf_node: an implicit degree / force IS the
   default value, and Boost.__init__ normalises an explicit force. *)
Definition wf_node (t : item) : Prop :=
  match t with
  | Fuzzy _ _ d true => d = dec_half
  | Proximity _ _ d true => d = 1%Z
  | Boost _ _ f true => f = dec_one
  | Boost _ _ f false => dec_normalize f = f
  | _ => True
  end.

(* the node with placeholder children and no name *)
Definition stripped (t : item) : item :=
  let m' := clone_meta (meta_of t) in
  match t with
  | Term k _ v => Term k m' v
  | SearchField _ n _ => SearchField m' n none_item
  | Grp k _ _ => Grp k m' none_item
  | Range _ _ _ il ih => Range m' none_item none_item il ih
  | Fuzzy _ _ d i => Fuzzy m' none_item d i
  | Proximity _ _ d i => Proximity m' none_item d i
  | Boost _ _ f i => Boost m' none_item f i
  | Op k _ _ => Op k m' []
  | Unary k _ _ => Unary k m' none_item
  | ORange k _ _ i => ORange k m' none_item i
  | NoneItem _ => NoneItem m'
  end.

Lemma clone_item_wf t : wf_node t -> clone_item t = Some (stripped t).
Proof.
  destruct t as [[]| | []| | m x d [] | m x d [] | m e f [] |[]|[]|[]|]; simpl; intros H;
    try reflexivity; try (subst; reflexivity).
  rewrite H. reflexivity.
Qed.

(* ================================================================ reading the relation *)

Lemma set_children_children c cs t' :
  set_children c cs = Some t' -> children t' = cs /\ cls_of t' = cls_of c /\ meta_of t' = meta_of c.
Proof.
  destruct c as [| | | | | | |k m ops| | |]; simpl; intros H;
    try (inversion H; subst; auto; fail);
    repeat (destruct cs as [|? cs]; simpl in H; try discriminate H);
    inversion H; subst; auto.
Qed.

Lemma clone_item_cls t c : clone_item t = Some c -> cls_of c = cls_of t /\ meta_of c = clone_meta (meta_of t).
Proof.
  destruct t as [[]| | []| | m x d [] | m x d [] | m e f [] |[]|[]|[]|]; simpl; intros H;
    inversion H; subst; auto.
Qed.

(* a node that is neither a comparison nor (with merging) an AND: one output child per input child *)
Lemma conv_plain_node merge ah t t' :
  Conv merge ah t t' ->
  (forall k m a i, t <> ORange k m a i) ->
  (merge = false \/ forall m ops, t <> Op KAnd m ops) ->
  cls_of t' = cls_of t /\ meta_of t' = clone_meta (meta_of t) /\
  Forall2 (Conv merge ah) (children t) (children t').
Proof.
  intros H Hno Hna. inversion H as [| |t0 c cs cs' t1 _ Hc HF Hm Hs]; subst;
    try (exfalso; eapply Hno; reflexivity).
  destruct (set_children_children _ _ _ Hs) as [Hch [Hcl Hme]].
  destruct (clone_item_cls _ _ Hc) as [Hcl' Hme'].
  assert (Hcs : cs' = cs).
  { destruct Hna as [->|Hna]; [exact Hm|].
    destruct t as [| | | | | | |[]| | |]; try (rewrite Bool.andb_false_r in Hm; exact Hm).
    exfalso. eapply Hna. reflexivity. }
  rewrite Hch, Hcs. repeat split; congruence.
Qed.

(* an AND node with merging *)
Lemma conv_and_node ah m ops t' :
  Conv true ah (Op KAnd m ops) t' ->
  exists ops1 ops',
    t' = Op KAnd (clone_meta m) ops' /\
    Forall2 (Conv true ah) ops ops1 /\
    merge_steps ops1 ops' /\ fully_merged ops' /\
    filter (fun c => negb (is_range c)) ops' = filter (fun c => negb (is_range c)) ops1 /\
    forall (V : Type) (le : V -> V -> bool) (bv : item -> option V) (opq : item -> bool),
      (forall b, is_wildcard b = true -> bv b = None) ->
      forall x, conj V le bv opq x ops1 = conj V le bv opq x ops'.
Proof.
  intros H. inversion H as [| |t0 c cs cs' t1 _ Hc HF Hm Hs]; subst.
  simpl in Hc, HF, Hm. inversion Hc; subst c. simpl in Hs. inversion Hs; subst t'.
  destruct Hm as [Hsteps Hfull].
  exists cs, cs'. repeat split; auto.
  - apply merge_steps_not_range. exact Hsteps.
  - intros V le bv opq Hw x. apply merge_steps_conj; assumption.
Qed.
