(* RespellSimProofs.v — re-spelling the digits of APPROX/BOOST tokens (`~1.0` for `~1`, `^007` for `^7`)
   by digits that denote the same number does not change the erased tree: a ONE-DIRECTIONAL lock-step
   simulation of two runs of the LR driver, for ANY tables, under the hypothesis that every token text
   the actions of the first run printed anew is the token's own text or a re-spelled numeral
   (respell_ok; a theorem for the generated tables: RespellProofs.parse_full_respell_ok). *)
Require Import Base Decimal Tree GenTree GenParser Lexer Print Actions LR Parser Erase TreeInd.
Require Import LexerProofs ActionProofs LRProofs LayoutProofs RespellProofs.
From Coq Require Import Lia.

(* d' can stand for d wherever an action reads the numeral: Decimal(d).normalize() and int(d) are kept *)
Definition num_sem (d d' : str) : Prop :=
  (forall f, dec_of_lexeme d = Some f ->
     exists f', dec_of_lexeme d' = Some f' /\ dec_normalize f' = dec_normalize f) /\
  (forall z, int_of_lexeme d = Some z -> int_of_lexeme d' = Some z).

Definition num_lex (l l' : str) : Prop :=
  exists c d d', (c = c_tilde \/ c = c_caret) /\ l = c :: d /\ l' = c :: d' /\ d <> [] /\ d' <> [] /\
                 forallb is_numchar d = true /\ forallb is_numchar d' = true /\ num_sem d d'.

Definition key_num (t t' : token) : Prop :=
  tk_type t' = tk_type t /\
  (tk_lexeme t' = tk_lexeme t \/
   ((tk_type t = T_APPROX \/ tk_type t = T_BOOST) /\ num_lex (tk_lexeme t) (tk_lexeme t'))).

(* ================================================================ 1. the value relation *)

(* two APPROX/BOOST token values whose numerals denote the same number *)
Definition num_tok (v w : symval) : Prop :=
  exists l x m l' x' m', v = VTok l x m /\ w = VTok l' x' m' /\
    (exists c d d', (c = c_tilde \/ c = c_caret) /\ l = c :: d /\ x = Some d /\ l' = c :: d' /\ x' = Some d' /\
                    forallb is_numchar d = true /\ forallb is_numchar d' = true /\ num_sem d d') /\
    (m_pos m = None <-> m_pos m' = None).

Definition sim2 (v w : symval) : Prop := sim v w \/ num_tok v w.

Lemma sim2_of_sim v w : sim v w -> sim2 v w.
Proof. intro H. left. exact H. Qed.

Lemma token_value_sim2 t1 t2 : key_num t1 t2 -> sim2 (token_value t1) (token_value t2).
Proof.
  intros [Hty [Hl|[Hab Hn]]].
  - left. apply token_value_sim. unfold tok_key. congruence.
  - right. destruct Hn as [c [d [d' [Hc [E1 [E2 [Hd [Hd' [Hf [Hf' Hs]]]]]]]]]].
    unfold token_value. rewrite Hty, E1, E2.
    destruct d as [|c1 d1]; [contradiction|]. destruct d' as [|c1' d1']; [contradiction|].
    destruct Hab as [Hab|Hab]; rewrite Hab; simpl tl;
      do 6 eexists; (split; [reflexivity|]); (split; [reflexivity|]);
      (split; [exists c, (c1 :: d1), (c1' :: d1'); tauto|]); simpl; split; intro; discriminate.
Qed.

Lemma sim2_item_inv i w : sim2 (VItem i) w -> exists j, w = VItem j /\ erase i = erase j.
Proof.
  intros [H|H]; [apply sim_item_inv; exact H|].
  destruct H as [l [x [m [l' [x' [m' [E _]]]]]]]. discriminate.
Qed.

Lemma sim2_tok_inv l x m w : sim2 (VTok l x m) w ->
  (exists m', w = VTok l x m' /\ (m_pos m = None <-> m_pos m' = None)) \/
  (exists c d d' m', (c = c_tilde \/ c = c_caret) /\ l = c :: d /\ x = Some d /\
                     w = VTok (c :: d') (Some d') m' /\
                     forallb is_numchar d = true /\ forallb is_numchar d' = true /\ num_sem d d' /\
                     (m_pos m = None <-> m_pos m' = None)).
Proof.
  intros [H|H]; [left; apply sim_tok_inv; exact H|right].
  destruct H as [l0 [x0 [m0 [l' [x' [m' [E [E' [[c [d [d' [Hc [E1 [E2 [E3 [E4 [Hf [Hf' Hs]]]]]]]]]] Hp]]]]]]]]].
  inversion E; subst. exists c, d, d', m'. tauto.
Qed.

Lemma sim2_item i j : erase i = erase j -> sim2 (VItem i) (VItem j).
Proof. intro H. left. apply sim_item. exact H. Qed.

(* ================================================================ 2. one semantic action *)

(* a printed text that does not start with ~ or ^ *)
Definition nohead (p : str) : bool :=
  match p with [] => true | x :: _ => negb (N.eqb x c_tilde || N.eqb x c_caret) end.

Lemma num_respell_absurd c d p evs :
  Forall respell_ok evs -> In (GRespell (c :: d) p) evs -> (c = c_tilde \/ c = c_caret) ->
  nohead p = true -> False.
Proof.
  intros Hev Hin Hc Hp. rewrite Forall_forall in Hev. specialize (Hev _ Hin). simpl in Hev.
  destruct Hev as [E|[c' [d1 [d2 [Hc' [E1 [E2 _]]]]]]].
  - subst p. simpl in Hp. destruct Hc; subst c; discriminate.
  - subst p. simpl in Hp. destruct Hc'; subst c'; discriminate.
Qed.

Lemma num_respell_self_absurd c d evs :
  Forall respell_ok evs -> In (GRespell (c :: d) d) evs -> (c = c_tilde \/ c = c_caret) ->
  forallb is_numchar d = true -> False.
Proof.
  intros Hev Hin Hc Hf. rewrite Forall_forall in Hev. specialize (Hev _ Hin). simpl in Hev.
  destruct Hev as [E|[c' [d1 [d2 [Hc' [E1 [E2 _]]]]]]].
  - apply (f_equal (@length _)) in E. simpl in E. lia.
  - inversion E1; subst c' d1. rewrite E2 in Hf. simpl in Hf. destruct Hc; subst c; discriminate.
Qed.

Lemma run_action_from_sim a args args' v evs :
  Forall2 sim args args' -> run_action a args = Ok (v, evs) ->
  exists v' evs', run_action a args' = Ok (v', evs') /\ sim2 v v'.
Proof.
  intros HF H. pose proof (run_action_sim a _ _ HF) as R. rewrite H in R.
  destruct (run_action a args') as [[v' evs']|e]; simpl in R; [|contradiction].
  exists v', evs'. split; [reflexivity|left; exact R].
Qed.

Lemma binary_respell_in k a l x m b v evs :
  binary k a (Some (VTok l x m)) b = Ok (v, evs) -> In (GRespell l (op_text k)) evs.
Proof.
  unfold binary.
  destruct (if match b with Op k' _ _ => opk_eqb k k' | _ => false end then children b else [b]); [discriminate|].
  destruct (htm_pos _ false false). intros H. inversion H; subst; clear H.
  apply in_or_app. right. left. reflexivity.
Qed.

Lemma post_unary_sim2 mk mk' o o' x x' e e' v evs :
  (forall m y m' y', erase y = erase y' -> erase (mk m y) = erase (mk' m' y')) -> erase x = erase x' ->
  Ok (post_unary_ht mk x o e) = Ok (v, evs) ->
  exists v' evs', Ok (post_unary_ht mk' x' o' e') = Ok (v', evs') /\ sim2 v v'.
Proof.
  intros Hmk Hx H. exists (fst (post_unary_ht mk' x' o' e')), (snd (post_unary_ht mk' x' o' e')).
  split; [reflexivity|]. injection H as H. left.
  replace v with (fst (post_unary_ht mk x o e)) by (rewrite H; reflexivity).
  apply post_unary_sim; assumption.
Qed.

Local Opaque htm_pos.

Ltac f2_inv :=
  repeat match goal with
  | H : Forall2 sim2 [] _ |- _ => inversion H; subst; clear H
  | H : Forall2 sim2 (_ :: _) _ |- _ => inversion H; subst; clear H
  end.

Ltac sim2_inv :=
  repeat match goal with
  | H : sim2 (VItem _) _ |- _ => apply sim2_item_inv in H; destruct H as [? [? ?]]; subst
  | H : sim2 (VTok _ _ _) _ |- _ =>
      apply sim2_tok_inv in H;
      destruct H as [[? [? ?]]|[? [? [? [? [? [? [? [? [? [? [? ?]]]]]]]]]]]]; subst
  | H : Some _ = Some _ |- _ => injection H as H; subst
  end.

Ltac find_in := simpl; repeat (first [left; reflexivity | right]).

Ltac nohead_tac :=
  unfold gen_low_char, gen_high_char, gen_openrange_char;
  repeat match goal with
  | |- context [if ?b then _ else _] => is_var b; fail 1
  | |- context [if ?b then _ else _] => let B := fresh "B" in remember b as B; destruct B; simpl
  end; reflexivity.

Theorem run_action_sim2 a args args' v evs :
  Forall2 sim2 args args' -> run_action a args = Ok (v, evs) -> Forall respell_ok evs ->
  exists v' evs', run_action a args' = Ok (v', evs') /\ sim2 v v'.
Proof.
  intros HF H Hev. pose proof H as H0.
  destruct a; simpl in H;
    repeat match type of H with
    | match ?l with [] => _ | _ :: _ => _ end = _ => destruct l as [|? ?]; try discriminate
    | match ?x with VItem _ => _ | VTok _ _ _ => _ end = _ => destruct x; try discriminate
    | match ?o with Some _ => _ | None => _ end = _ => is_var o; destruct o; try discriminate
    | match ?i with Term _ _ _ => _ | _ => _ end = _ => destruct i; try discriminate
    end; f2_inv.
  (* pass-through actions *)
  all: try (match type of H with Ok (?s, []) = Ok _ =>
              inversion H; subst; eexists; exists [];
              (split; [match goal with |- run_action _ [?y] = _ => destruct y; reflexivity end|assumption]) end; fail).
  all: sim2_inv; try discriminate.
  (* no numeral token among the arguments *)
  all: try (eapply run_action_from_sim; [|exact H0];
            repeat (apply Forall2_cons || apply Forall2_nil);
            try (apply sim_item; assumption); solve_sim; fail).
  (* a numeral token where an operator token is printed anew: excluded by the event *)
  all: try (exfalso; eapply num_respell_absurd;
            [exact Hev|eapply binary_respell_in; exact H|eassumption|reflexivity]; fail).
  all: try (unfold unary_ht, post_unary_ht in H; inversion H; subst; exfalso;
            first [ eapply num_respell_absurd; [exact Hev|find_in|eassumption|nohead_tac]
                  | eapply num_respell_self_absurd; [exact Hev|find_in|eassumption|assumption] ]; fail).
  (* the numeral is read: the same integer, the same normalised decimal *)
  - match type of H with context [int_of_lexeme ?d] => destruct (int_of_lexeme d) as [z|] eqn:E; [|discriminate] end.
    match goal with Hs : num_sem _ _ |- _ => destruct Hs as [_ Hs]; pose proof (Hs _ E) as E' end.
    simpl. rewrite E'. eapply post_unary_sim2; [|eassumption|exact H]. intros; simpl; congruence.
  - match type of H with context [dec_of_lexeme ?d] => destruct (dec_of_lexeme d) as [f|] eqn:E; [|discriminate] end.
    match goal with Hs : num_sem _ _ |- _ => destruct Hs as [Hs _]; destruct (Hs _ E) as [f' [E' Hn]] end.
    simpl. rewrite E'. eapply post_unary_sim2; [|eassumption|exact H]. intros; simpl; rewrite Hn; congruence.
  - match type of H with context [dec_of_lexeme ?d] => destruct (dec_of_lexeme d) as [f|] eqn:E; [|discriminate] end.
    match goal with Hs : num_sem _ _ |- _ => destruct Hs as [Hs _]; destruct (Hs _ E) as [f' [E' Hn]] end.
    simpl. rewrite E'. eapply post_unary_sim2; [|eassumption|exact H]. intros; simpl; rewrite Hn; congruence.
Qed.

(* ================================================================ 3. the driver *)

Definition cfg_sim2 (c1 c2 : config) : Prop :=
  c_states c1 = c_states c2 /\ Forall2 sim2 (c_vals c1) (c_vals c2) /\
  Forall2 key_num (c_toks c1) (c_toks c2).

Lemma shift_sim2 c1 c2 n c1' : cfg_sim2 c1 c2 -> do_shift c1 n = Next c1' ->
  exists c2', do_shift c2 n = Next c2' /\ cfg_sim2 c1' c2'.
Proof.
  intros [Hs [Hv Ht]] H. unfold do_shift in *.
  destruct Ht as [|t1 t2 r1 r2 Hk Hr]; [discriminate|]. inversion H; subst; clear H.
  eexists. split; [reflexivity|]. split; [simpl; congruence|]. split; [|exact Hr].
  simpl. constructor; [apply token_value_sim2; exact Hk|exact Hv].
Qed.

Lemma reduce_sim2 tb c1 c2 p c1' : cfg_sim2 c1 c2 -> do_reduce tb c1 p = Next c1' ->
  (forall evs, c_dropped c1' = c_dropped c1 ++ evs -> Forall respell_ok evs) ->
  exists c2', do_reduce tb c2 p = Next c2' /\ cfg_sim2 c1' c2'.
Proof.
  intros [Hs [Hv Ht]] H Hev. unfold do_reduce in *.
  assert (Hlen : length (c_vals c1) = length (c_vals c2)) by (eapply Forall2_length; eassumption).
  destruct p as [|p']; [discriminate|]. simpl in *.
  destruct (nth_error (tb_prods tb) p') as [[[lhs rhs] a]|]; [|discriminate].
  rewrite <- Hlen, <- Hs. destruct (Nat.ltb (length (c_vals c1)) (length rhs)); [discriminate|].
  destruct (run_action a (rev (firstn (length rhs) (c_vals c1)))) as [[v1 d1]|e1] eqn:Hact; [|discriminate].
  destruct (tb_goto tb (hd 0 (skipn (length rhs) (c_states c1))) lhs) as [g|]; [|discriminate].
  inversion H; subst; clear H. simpl in Hev.
  destruct (run_action_sim2 a _ _ _ _ (Forall2_rev _ _ _ (Forall2_firstn _ (length rhs) _ _ Hv)) Hact
              (Hev _ eq_refl)) as [v2 [d2 [Hact2 Hsim]]].
  rewrite Hact2. eexists. split; [reflexivity|]. split; [reflexivity|]. split; [|exact Ht].
  simpl. constructor; [exact Hsim|apply Forall2_skipn; exact Hv].
Qed.

Lemma accept_sim2 c1 c2 t evs : cfg_sim2 c1 c2 -> do_accept None c1 = Final (Ok t) evs ->
  exists t' evs', do_accept None c2 = Final (Ok t') evs' /\ erase t' = erase t.
Proof.
  intros [Hs [Hv Ht]] H. unfold do_accept in *.
  destruct Hv as [|v1 v2 l1 l2 Hv0 Hvl]; [discriminate|].
  destruct v1 as [i1|? ? ?]; [|discriminate]. inversion H; subst; clear H.
  apply sim2_item_inv in Hv0. destruct Hv0 as [j [E He]]. subst v2.
  eexists. eexists. split; [reflexivity|]. symmetry. exact He.
Qed.

Lemma lookahead_sim2 c1 c2 : cfg_sim2 c1 c2 ->
  match hd_error (c_toks c1) with Some t => tk_type t | None => T_EOF end =
  match hd_error (c_toks c2) with Some t => tk_type t | None => T_EOF end.
Proof.
  intros [_ [_ Ht]]. destruct Ht as [|t1 t2 r1 r2 [Hty _] _]; simpl; [reflexivity|]. symmetry. exact Hty.
Qed.

Lemma step_unfold tb c :
  step tb None c =
  match tb_action tb (hd 0 (c_states c)) match hd_error (c_toks c) with Some t => tk_type t | None => T_EOF end with
  | Shift n => do_shift c n | Reduce p => do_reduce tb c p | Accept => do_accept None c
  | ActErr => Final (Err (syntax_error (hd_error (c_toks c)))) [] end.
Proof. unfold step. destruct (c_toks c); reflexivity. Qed.

Lemma step_sim2_next tb c1 c2 c1' : cfg_sim2 c1 c2 -> step tb None c1 = Next c1' ->
  (forall evs, c_dropped c1' = c_dropped c1 ++ evs -> Forall respell_ok evs) ->
  exists c2', step tb None c2 = Next c2' /\ cfg_sim2 c1' c2'.
Proof.
  intros Hc H Hev. rewrite step_unfold in *. rewrite <- (lookahead_sim2 _ _ Hc).
  destruct Hc as [Hs Hc']. rewrite <- Hs. pose proof (conj Hs Hc') as Hc.
  destruct (tb_action tb _ _) as [n|p| |].
  - eapply shift_sim2; eassumption.
  - eapply reduce_sim2; eassumption.
  - unfold do_accept in H. destruct (c_vals c1) as [|[?|? ? ?] ?]; discriminate.
  - discriminate.
Qed.

Lemma step_sim2_final tb c1 c2 t evs : cfg_sim2 c1 c2 -> step tb None c1 = Final (Ok t) evs ->
  exists t' evs', step tb None c2 = Final (Ok t') evs' /\ erase t' = erase t.
Proof.
  intros Hc H. rewrite step_unfold in *. rewrite <- (lookahead_sim2 _ _ Hc).
  destruct Hc as [Hs Hc']. rewrite <- Hs. pose proof (conj Hs Hc') as Hc.
  destruct (tb_action tb _ _) as [n|p| |].
  - unfold do_shift in H. destruct (c_toks c1); discriminate.
  - unfold do_reduce in H. destruct p as [|p']; [discriminate|]. simpl in H.
    destruct (nth_error (tb_prods tb) p') as [[[lhs rhs] a]|]; [|discriminate].
    destruct (Nat.ltb _ _); [discriminate|].
    destruct (run_action a _) as [[v1 d1]|e1]; [|discriminate].
    destruct (tb_goto tb _ lhs); discriminate.
  - eapply accept_sim2; eassumption.
  - discriminate.
Qed.

Lemma run_sim2 tb : forall fuel c1 c2 t evs, cfg_sim2 c1 c2 ->
  run tb None fuel c1 = Done (Ok t) evs ->
  (forall evs', evs = c_dropped c1 ++ evs' -> Forall respell_ok evs') ->
  exists t' evs2, run tb None fuel c2 = Done (Ok t') evs2 /\ erase t' = erase t.
Proof.
  induction fuel as [|f IH]; intros c1 c2 t evs Hc H Hev; simpl in H; [discriminate|].
  destruct (step tb None c1) as [c1'|r evs1] eqn:Hs.
  - destruct (run_dropped_prefix _ _ _ _ _ _ H) as [rest Hrest].
    destruct (step_dropped_prefix _ _ _ _ Hs) as [evs0 Hd].
    assert (Hev0 : forall evs', evs = c_dropped c1' ++ evs' -> Forall respell_ok (evs0 ++ evs')).
    { intros evs' He. apply Hev. rewrite He, Hd, <- app_assoc. reflexivity. }
    destruct (step_sim2_next tb c1 c2 c1' Hc Hs) as [c2' [Hs2 Hc2]].
    { intros evs' He. rewrite Hd in He. apply app_inv_head in He. subst evs'.
      specialize (Hev0 _ Hrest). apply Forall_app in Hev0. apply Hev0. }
    simpl. rewrite Hs2. eapply IH; [exact Hc2|exact H|].
    intros evs' He. specialize (Hev0 _ He). apply Forall_app in Hev0. apply Hev0.
  - inversion H; subst; clear H.
    destruct (step_sim2_final tb c1 c2 t evs1 Hc Hs) as [t' [evs' [Hs2 He]]].
    simpl. rewrite Hs2. eexists. eexists. split; [reflexivity|exact He].
Qed.

(* ================================================================ 4. the theorems *)

(* token lists: the second run, on tokens whose APPROX/BOOST numerals are re-spelled, ends with a tree
   that differs from the first one's in layout only *)
Theorem run_respelled_same_tree tb fuel toks1 toks2 ev1 ev2 t evs :
  run tb None fuel (init_config toks1 ev1) = Done (Ok t) evs -> Forall respell_ok evs ->
  Forall2 key_num toks1 toks2 ->
  exists t' evs', run tb None fuel (init_config toks2 ev2) = Done (Ok t') evs' /\ erase t' = erase t.
Proof.
  intros H Hev Hk. eapply run_sim2; [|exact H|].
  - unfold cfg_sim2, init_config. simpl. split; [reflexivity|]. split; [constructor|exact Hk].
  - intros evs' He. subst evs. apply Forall_app in Hev. apply Hev.
Qed.

Theorem parse_respelled_same_tree tb s1 s2 t evs :
  parse_with tb s1 = Done (Ok t) evs -> Forall respell_ok evs ->
  snd (lex s1) = None -> snd (lex s2) = None ->
  Forall2 key_num (fst (lex s1)) (fst (lex s2)) ->
  exists t' evs', parse_with tb s2 = Done (Ok t') evs' /\ erase t' = erase t.
Proof.
  unfold parse_with. destruct (lex s1) as [toks1 e1], (lex s2) as [toks2 e2]. simpl.
  intros H Hev E1 E2 Hk. subst e1 e2.
  assert (Hf : parse_fuel toks2 = parse_fuel toks1).
  { unfold parse_fuel. rewrite (Forall2_length _ _ _ Hk). reflexivity. }
  rewrite Hf. eapply run_respelled_same_tree; eassumption.
Qed.

(* with PLY's tables the hypothesis on the events is a theorem *)
Corollary parse_full_respelled_same_tree s1 s2 t evs :
  parse_full s1 = Done (Ok t) evs ->
  snd (lex s1) = None -> snd (lex s2) = None ->
  Forall2 key_num (fst (lex s1)) (fst (lex s2)) ->
  exists t' evs', parse_full s2 = Done (Ok t') evs' /\ erase t' = erase t.
Proof.
  intros H. eapply parse_respelled_same_tree; [exact H|]. eapply parse_full_respell_ok. exact H.
Qed.

(* ---- non-vacuity: `1.0` for `1`, `007` for `7`, and the identity *)
Lemma num_sem_refl d : num_sem d d.
Proof. split; [intros f H; exists f; split; [exact H|reflexivity]|intros z H; exact H]. Qed.

Example num_sem_ex1 : num_sem [49;46;48]%N [49]%N.
Proof.
  split.
  - intros f H. vm_compute in H. inversion H; subst. eexists. split; [vm_compute; reflexivity|reflexivity].
  - intros z H. vm_compute in H. discriminate.
Qed.

Example num_sem_ex2 : num_sem [48;48;55]%N [55]%N.
Proof.
  split.
  - intros f H. vm_compute in H. inversion H; subst. eexists. split; [vm_compute; reflexivity|reflexivity].
  - intros z H. vm_compute in H. inversion H; subst. reflexivity.
Qed.

Example key_num_ex :
  key_num (mkTok T_APPROX [126;49;46;48]%N 3 [] []) (mkTok T_APPROX [126;49]%N 3 [] []).
Proof.
  split; [reflexivity|]. right. split; [left; reflexivity|].
  exists c_tilde, [49;46;48]%N, [49]%N. split; [left; reflexivity|].
  split; [reflexivity|]. split; [reflexivity|]. split; [discriminate|]. split; [discriminate|].
  split; [reflexivity|]. split; [reflexivity|]. exact num_sem_ex1.
Qed.

(* the hypotheses of the theorem hold together: `a~1.0` and `a~1` *)
Example respelled_ex :
  let s1 := [97;126;49;46;48]%N in let s2 := [97;126;49]%N in
  (exists t evs, parse_full s1 = Done (Ok t) evs) /\ snd (lex s1) = None /\ snd (lex s2) = None /\
  Forall2 key_num (fst (lex s1)) (fst (lex s2)).
Proof.
  intros s1 s2. split; [eexists; eexists; vm_compute; reflexivity|].
  split; [vm_compute; reflexivity|]. split; [vm_compute; reflexivity|].
  let x := eval vm_compute in (fst (lex s1)) in change (fst (lex s1)) with x.
  let x := eval vm_compute in (fst (lex s2)) in change (fst (lex s2)) with x.
  constructor; [split; [reflexivity|left; reflexivity]|]. constructor; [|constructor].
  split; [reflexivity|]. right. split; [left; reflexivity|].
  exists c_tilde, [49;46;48]%N, [49]%N. split; [left; reflexivity|].
  split; [reflexivity|]. split; [reflexivity|]. split; [discriminate|]. split; [discriminate|].
  split; [reflexivity|]. split; [reflexivity|]. exact num_sem_ex1.
Qed.

Print Assumptions run_action_sim2.
Print Assumptions run_respelled_same_tree.
Print Assumptions parse_respelled_same_tree.
