(* C11m — C11 END TO END WITH RESPECT TO THE INPUT, inside C11r's guard.
   Only statements, short glue, witnesses, non-vacuity examples and Print Assumptions.
   Lemmas: proofs/MeaningLinkProofs.v (links output -> input), props/C11r.v (`C11_regen`: output -> re-parsed tree).

   C11r.v proves: whenever the OUTPUT t' of a shipped transformer is inside the executable guard `Regen.regen_ok`,
   `print true t'` parses to a tree t'' with the meaning of t'.  Here t'' is related to the INPUT tree t (the parsed
   query), for every valuation of the atoms:

     transformer                       what t'' means                                              theorem
     default copy, auto_head_tail      what t means (same fingerprint: equal up to layout)         C11_transformers_end_to_end
     UnknownOperationResolver          t with the implicit operation at path p read as the          C11_resolve_end_to_end
       (any target, any add_head)      operation found at p in t' (`read_as (chosen t') t`); that
                                       operation is the target (explicit target), AND or OR (Lucene
                                       mode), AND throughout when the query has no explicit AND / OR
                                       (C10's rule); no implicit operation is left: the default
                                       operator is irrelevant on both sides
       target AND / OR                 under ANY default operator, what t means under the default  C11_resolve_default_end_to_end
                                       operator AND / OR (Meaning.v's own reading of t)
     OpenRangeTransformer              t with every comparison read as the one-sided range it       C11_openrange_end_to_end
       (merge or not, any add_head)    abbreviates (`canon (fingerprint t)`: >x = {x TO *], >=x =
                                       [x TO *], <x = [* TO x}, <=x = [* TO x]); without merging for
                                       EVERY valuation (indeed fingerprint t' = canon (fingerprint t),
                                       C11_openrange_plain_fingerprint, no guard); with merging for
                                       the RANGE-RESPECTING valuations
     resolve, then open ranges         canon (read_as (chosen t1) t), t1 = the resolver's output    C11_transformers_end_to_end
     every shipped transformer         (the above, add_head = one blank)                            C11_shipped_end_to_end

   CONVENTION ON ATOMS.  Meaning.v compares atoms by fingerprint, so `>1` (FORange) and `{1 TO *]` (FRange) are
   different atoms, and so are `[1 TO *]`, `[* TO 5}` and the merged `[1 TO 5}`.  As in the oracle of harness/c12.py
   (which evaluates a range as "lower bound condition and upper bound condition, `*` unbounded" and a comparison as
   its one condition) the statements are therefore made
     * against `canon (fingerprint t)`: the input in which each comparison IS the corresponding one-sided range atom;
     * for merging, over the valuations v that are `range_respecting`: v (cx, [lo TO hi]) = L cx il lo && H cx ih hi
       for some functions L, H (any: comparing a field value with the bound is one instance, `rr_of`), with `*` no
       condition.  C11m_range_respecting_needed: without that restriction merging does change the truth table.
   No further hypothesis is added: that the leaves of the meaning hold values only (`flat`, needed for merging and
   for the default-operator reading) follows from the guard (`regen_ok_flat`), and the constructor invariant of
   the input follows from `parse s = Some (Ok t)` (MeaningProofs.parse_wf).
   The guard is needed: C11m_guard_needed (F10's witness: the re-parsed tree does not mean what the input read with
   AND means).  BoolOperation targets are never inside the guard (C11r_bool_needed): the resolver statement is
   non-vacuous for AND, OR and the Lucene mode. *)
Require Import Base Decimal Tree TreeEq GenTree Eq EqSpec Print TreeInd GenParser Lexer Actions LR Parser Erase Grammar.
Require Import Traverse Resolver OpenRange AutoHeadTail Meaning Regen.
Require Import ResolverProofs MeaningProofs MeaningLinkProofs.
Require Import C11 C11r.

(* ---------------------------------------------------------------- statements *)

(* 1. the resolver.  `resolve tg ah t = Some t'` implies that tg is a valid target (AND / OR / Bool / None). *)
Definition C11_resolve_end_to_end_statement : Prop :=
  forall s t tg ah t', parse s = Some (Ok t) -> resolve tg ah t = Some t' -> regen_ok t' = true ->
    exists t'', parse (print true t') = Some (Ok t'') /\
      (* for every valuation, whatever the default operator on either side *)
      (forall d d' v, Meaning.sem d v t'' = fsem d' v [] (read_as (chosen t') t)) /\
      (* which operation each implicit operation is read as *)
      (forall p m ops, subtree_at t p = Some (Op KUnknown m ops) -> allowed tg (chosen t' p)) /\
      (forall k, tg = Some k -> read_as (chosen t') t = read_as (fun _ => k) t) /\
      (tg = None -> no_andor t -> read_as (chosen t') t = read_as (fun _ => KAnd) t).

(* target AND (d0 = true) / OR (d0 = false), in Meaning.v's own vocabulary *)
Definition C11_resolve_default_end_to_end_statement : Prop :=
  forall s t (d0 : bool) ah t', parse s = Some (Ok t) -> resolve (Some (dflt_op d0)) ah t = Some t' ->
    regen_ok t' = true ->
    exists t'', parse (print true t') = Some (Ok t'') /\ forall d v, Meaning.sem d v t'' = Meaning.sem d0 v t.

(* 2. open ranges *)
Definition C11_openrange_end_to_end_statement : Prop :=
  forall s t mg ah t', parse s = Some (Ok t) -> open_range mg ah t = Some t' -> regen_ok t' = true ->
    exists t'', parse (print true t') = Some (Ok t'') /\
      forall d v, mg = false \/ range_respecting v ->
        Meaning.sem d v t'' = fsem d v [] (canon (fingerprint t)).

(* without merging the output IS the input with canonical atoms (no guard) *)
Definition C11_openrange_plain_fingerprint_statement : Prop :=
  forall s t ah t', parse s = Some (Ok t) -> open_range false ah t = Some t' ->
    fingerprint t' = canon (fingerprint t).

(* the restriction on the valuations is needed for merging *)
Definition C11_openrange_unrestricted_statement : Prop :=
  forall s t ah t', parse s = Some (Ok t) -> open_range true ah t = Some t' -> regen_ok t' = true ->
    exists t'', parse (print true t') = Some (Ok t'') /\
      forall d v, Meaning.sem d v t'' = fsem d v [] (canon (fingerprint t)).

(* 3. every transformer, as data (Meaning.tname; ANY add_head) *)
Definition expected (N : tname) (t : item) : option fp :=
  match N with
  | TCopy | TAht => Some (fingerprint t)
  | TResolve tg ah =>
      match resolve tg ah t with Some t1 => Some (read_as (chosen t1) t) | None => None end
  | TOpenRange _ _ => Some (canon (fingerprint t))
  | TResolveOpen tg _ ah =>
      match resolve tg ah t with Some t1 => Some (canon (read_as (chosen t1) t)) | None => None end
  end.
Definition merges (N : tname) : bool :=
  match N with TOpenRange mg _ | TResolveOpen _ mg _ => mg | _ => false end.
Definition resolves (N : tname) : bool :=
  match N with TResolve _ _ | TResolveOpen _ _ _ => true | _ => false end.

Definition end_to_end (N : tname) (t t' : item) : Prop :=
  exists t'' e, parse (print true t') = Some (Ok t'') /\ expected N t = Some e /\
    (forall d v, merges N = false \/ range_respecting v -> Meaning.sem d v t'' = fsem d v [] e) /\
    (resolves N = true -> forall d d' v, fsem d v [] e = fsem d' v [] e).

Definition C11_transformers_end_to_end_statement : Prop :=
  forall s t N t', parse s = Some (Ok t) -> run_t N t = Some t' -> regen_ok t' = true -> end_to_end N t t'.

(* ... and in terms of C11.shipped (add_head = one blank) *)
Definition C11_shipped_end_to_end_statement : Prop :=
  forall s t T t', parse s = Some (Ok t) -> shipped T -> T t = Some t' -> regen_ok t' = true ->
    exists N, T = run_t N /\ end_to_end N t t'.

(* without the guard the resolver statement is false *)
Definition C11_resolve_end_to_end_unguarded_statement : Prop :=
  forall s t tg ah t', parse s = Some (Ok t) -> resolve tg ah t = Some t' ->
    exists t'', parse (print true t') = Some (Ok t'') /\
      forall d d' v, Meaning.sem d v t'' = fsem d' v [] (read_as (chosen t') t).

(* ---------------------------------------------------------------- theorems *)

Lemma parsed_std s t : parse s = Some (Ok t) -> std_attrs t.
Proof. exact (parse_wf s t). Qed.

Theorem C11_resolve_end_to_end : C11_resolve_end_to_end_statement.
Proof.
  intros s t tg ah t' Hp Hr Hg. pose proof (parsed_std s t Hp) as Hs.
  destruct (C11_regen t' Hg) as [t'' [Hp2 Hm]]. exists t''. split; [exact Hp2|].
  split; [intros d d' v; rewrite Hm; exact (resolve_link tg ah t t' Hr Hs d d' v)|].
  split; [exact (resolve_chosen_allowed tg ah t t' Hr)|].
  split.
  - intros k ->. rewrite <- (resolve_fingerprint_explicit k ah t t' Hr Hs).
    symmetry. exact (proj1 (resolve_fingerprint _ _ _ _ Hr Hs)).
  - intros -> Hn. exact (resolve_link_lucene_default ah t t' Hr Hn Hs).
Qed.

Theorem C11_resolve_default_end_to_end : C11_resolve_default_end_to_end_statement.
Proof.
  intros s t d0 ah t' Hp Hr Hg. destruct (C11_regen t' Hg) as [t'' [Hp2 Hm]]. exists t''. split; [exact Hp2|].
  intros d v. rewrite Hm. exact (resolve_link_default d0 ah t t' Hr (parsed_std s t Hp) (regen_ok_flat t' Hg) d v).
Qed.

Theorem C11_openrange_end_to_end : C11_openrange_end_to_end_statement.
Proof.
  intros s t mg ah t' Hp Ho Hg. destruct (C11_regen t' Hg) as [t'' [Hp2 Hm]]. exists t''. split; [exact Hp2|].
  intros d v Hv. rewrite Hm.
  exact (open_range_link mg ah t t' Ho (parsed_std s t Hp) (regen_ok_flat t' Hg) d v Hv).
Qed.

Theorem C11_openrange_plain_fingerprint : C11_openrange_plain_fingerprint_statement.
Proof. intros s t ah t' Hp Ho. exact (open_range_link_plain ah t t' Ho (parsed_std s t Hp)). Qed.

Theorem C11_transformers_end_to_end : C11_transformers_end_to_end_statement.
Proof.
  intros s t N t' Hp Hr Hg. pose proof (parsed_std s t Hp) as Hs.
  destruct (C11_regen t' Hg) as [t'' [Hp2 Hm]]. exists t''.
  destruct N as [| |tg ah|mg ah|tg mg ah]; simpl in Hr; unfold expected, merges, resolves.
  - exists (fingerprint t). split; [exact Hp2|]. split; [reflexivity|]. split; [|discriminate].
    intros d v _. rewrite Hm. unfold Meaning.sem. rewrite (copy_link t t' Hr Hs). reflexivity.
  - exists (fingerprint t). split; [exact Hp2|]. split; [reflexivity|]. split; [|discriminate].
    intros d v _. rewrite Hm. unfold Meaning.sem. rewrite (aht_link t t' Hr Hs). reflexivity.
  - rewrite Hr. exists (read_as (chosen t') t). split; [exact Hp2|]. split; [reflexivity|].
    destruct (resolve_fingerprint _ _ _ _ Hr Hs) as [Hf Hk]. split.
    + intros d v _. rewrite Hm. exact (resolve_link tg ah t t' Hr Hs d d v).
    + intros _ d d' v. rewrite <- Hf. apply fsem_dflt_irrelevant. exact Hk.
  - exists (canon (fingerprint t)). split; [exact Hp2|]. split; [reflexivity|]. split; [|discriminate].
    intros d v Hv. rewrite Hm. exact (open_range_link mg ah t t' Hr Hs (regen_ok_flat t' Hg) d v Hv).
  - unfold then_ in Hr. destruct (resolve tg ah t) as [t1|] eqn:Hr1; [|discriminate].
    exists (canon (read_as (chosen t1) t)). split; [exact Hp2|]. split; [reflexivity|].
    destruct (resolve_fingerprint _ _ _ _ Hr1 Hs) as [Hf Hk]. split.
    + intros d v Hv. rewrite Hm.
      exact (resolve_open_link tg mg ah ah t t1 t' Hr1 Hr Hs (regen_ok_flat t' Hg) d d v Hv).
    + intros _ d d' v. rewrite <- Hf. apply fsem_dflt_irrelevant. apply canon_known. exact Hk.
Qed.

Theorem C11_shipped_end_to_end : C11_shipped_end_to_end_statement.
Proof.
  intros s t T t' Hp HT Hr Hg. destruct HT as [| |tg Hv|mg|tg mg Hv].
  - exists TCopy. split; [reflexivity|]. exact (C11_transformers_end_to_end s t TCopy t' Hp Hr Hg).
  - exists TAht. split; [reflexivity|]. exact (C11_transformers_end_to_end s t TAht t' Hp Hr Hg).
  - exists (TResolve tg blank). split; [reflexivity|]. exact (C11_transformers_end_to_end s t (TResolve tg blank) t' Hp Hr Hg).
  - exists (TOpenRange mg blank). split; [reflexivity|]. exact (C11_transformers_end_to_end s t (TOpenRange mg blank) t' Hp Hr Hg).
  - exists (TResolveOpen tg mg blank). split; [reflexivity|].
    exact (C11_transformers_end_to_end s t (TResolveOpen tg mg blank) t' Hp Hr Hg).
Qed.

(* ---------------------------------------------------------------- the added restrictions are needed *)

(* >=1 AND <5   merged: [1 TO 5}.  The valuation "only the atom [1 TO 5} holds" is not range-respecting: the merged
   range holds, the conjunction of [1 TO *] and [* TO 5} does not *)
Definition q_merge : str := [62;61;49;32;65;78;68;32;60;53]%N.
Definition a_merged : atom := ([], FRange true false (FTerm KWord [49]%N) (FTerm KWord [53]%N)).

Lemma refute_unrestricted s t t' t'' d l :
  parse s = Some (Ok t) -> open_range true blank t = Some t' -> regen_ok t' = true ->
  parse (print true t') = Some (Ok t'') ->
  Meaning.sem d (val_of l) t'' <> fsem d (val_of l) [] (canon (fingerprint t)) ->
  ~ C11_openrange_unrestricted_statement.
Proof.
  intros Hp Ho Hg Hp2 Hne H. destruct (H s t blank t' Hp Ho Hg) as [t2 [Hp2' Hs]].
  rewrite Hp2 in Hp2'. inversion Hp2'; subst. apply Hne. apply Hs.
Qed.

Theorem C11m_range_respecting_needed : ~ C11_openrange_unrestricted_statement.
Proof.
  eapply (refute_unrestricted q_merge _ _ _ true [a_merged]);
    [vm_compute; reflexivity|vm_compute; reflexivity|vm_compute; reflexivity|vm_compute; reflexivity|
     vm_compute; discriminate].
Qed.

(* the guard: F10's witness `x OR y z` resolved to AND is And(Or(x, y), z), printed `x OR y AND z`, re-parsed as
   Or(x, And(y, z)): when only x holds it is true, the input read with AND is false *)
Lemma refute_unguarded s t tg ah t' t'' d l :
  parse s = Some (Ok t) -> resolve tg ah t = Some t' -> parse (print true t') = Some (Ok t'') ->
  Meaning.sem d (val_of l) t'' <> fsem d (val_of l) [] (read_as (chosen t') t) ->
  ~ C11_resolve_end_to_end_unguarded_statement.
Proof.
  intros Hp Hr Hp2 Hne H. destruct (H s t tg ah t' Hp Hr) as [t2 [Hp2' Hs]].
  rewrite Hp2 in Hp2'. inversion Hp2'; subst. apply Hne. apply Hs.
Qed.

Theorem C11m_guard_needed : ~ C11_resolve_end_to_end_unguarded_statement.
Proof.
  eapply (refute_unguarded f10_query _ (Some KAnd) blank _ _ true [w_atom [120]%N]);
    [vm_compute; reflexivity|vm_compute; reflexivity|vm_compute; reflexivity|vm_compute; discriminate].
Qed.

(* ---------------------------------------------------------------- non-vacuity *)

(* range-respecting valuations exist and discriminate: a range holds when its lower bound is `*` or satisfies L and
   its upper bound is `*` or satisfies H; every other atom is judged by o *)
Definition rr_of (L H : list ctxel -> bool -> fp -> bool) (o : atom -> bool) : atom -> bool :=
  fun a => match snd a with
           | FRange il ih lo hi => (is_fstar lo || L (fst a) il lo) && (is_fstar hi || H (fst a) ih hi)
           | _ => o a
           end.
Example C11m_range_respecting_nonvacuous :
  (forall L H o, range_respecting (rr_of L H o)) /\
  (* the field value 3 against numeric one-digit bounds: [1 TO 5} holds, [4 TO *] does not, [* TO 3} does not *)
  let dg (f : fp) : N := match f with FTerm KWord [c] => c | _ => 0%N end in
  let v := rr_of (fun _ il lo => if il then N.leb (dg lo) 51 else N.ltb (dg lo) 51)
                 (fun _ ih hi => if ih then N.leb 51 (dg hi) else N.ltb 51 (dg hi)) (fun _ => false) in
  v a_merged = true /\
  v ([], FRange true true (FTerm KWord [52]%N) fstar) = false /\
  v ([], FRange true false fstar (FTerm KWord [51]%N)) = false /\
  v ([], FRange true true fstar fstar) = true.
Proof.
  split; [intros L H o; exists L, H; intros cx il ih lo hi; reflexivity|].
  vm_compute. repeat split.
Qed.

(* what the theorems give for a query under a transformer: every hypothesis holds, the printed form is not the
   query, the expected meaning is not trivial (it is true of the atoms l1 and false of the atoms l0), and hence
   the conclusion *)
Definition linked (N : tname) (s : str) (l1 l0 : list atom) : Prop :=
  exists t t' e, parse s = Some (Ok t) /\ run_t N t = Some t' /\ regen_ok t' = true /\ print true t' <> s /\
                 expected N t = Some e /\
                 fsem true (val_of l1) [] e = true /\ fsem true (val_of l0) [] e = false /\
                 end_to_end N t t'.
Ltac link :=
  match goal with |- linked ?N ?s _ _ =>
    unfold linked;
    eexists; eexists; eexists; split; [vm_compute; reflexivity|];
    match goal with |- run_t N ?t = Some ?x /\ _ =>
      let Hp := fresh "Hp" in
      assert (Hp : parse s = Some (Ok t)) by (vm_compute; reflexivity);
      let Hr := fresh "Hr" in
      assert (Hr : run_t N t = Some x) by (vm_compute; reflexivity);
      split; [exact Hr|];
      match goal with |- regen_ok ?y = true /\ _ =>
        let H := fresh "H" in
        assert (H : regen_ok y = true) by (vm_compute; reflexivity);
        split; [exact H|]; split; [vm_compute; discriminate|]; split; [vm_compute; reflexivity|];
        split; [vm_compute; reflexivity|]; split; [vm_compute; reflexivity|];
        exact (C11_transformers_end_to_end s t N y Hp Hr H)
      end
    end
  end.

(* a b AND NOT (c OR >1) <=5 *)
Definition q_main : str := [97;32;98;32;65;78;68;32;78;79;84;32;40;99;32;79;82;32;62;49;41;32;60;61;53]%N.
Definition at_w (c : N) : atom := ([], FTerm KWord [c]).
Definition at_to5 : atom := ([], FORange KTo true (FTerm KWord [53]%N)).
Definition at_r_to5 : atom := ([], FRange true true fstar (FTerm KWord [53]%N)).

(* target AND: `a AND b AND NOT (c OR >1) AND <=5`; target OR: `a OR b AND NOT (c OR >1) OR <=5`; the Lucene mode
   resolves the (top-level) implicit operation to AND *)
Example C11m_resolve_and_nonvacuous : linked (TResolve (Some KAnd) blank) q_main [at_w 97; at_w 98; at_to5] [at_w 97; at_w 98].
Proof. link. Qed.
Example C11m_resolve_or_nonvacuous : linked (TResolve (Some KOr) blank) q_main [at_w 97] [at_w 99].
Proof. link. Qed.
Example C11m_resolve_lucene_nonvacuous : linked (TResolve None blank) q_main [at_w 97; at_w 98; at_to5] [at_w 97; at_w 98].
Proof. link. Qed.

(* the readings, for the reader: the top-level implicit operation became the target, nothing else moved *)
Example C11m_expected_prints :
  (match parse q_main with Some (Ok t) => expected (TResolve (Some KOr) blank) t | _ => None end)
  = Some (FOp KOr [FTerm KWord [97]%N;
                   FOp KAnd [FTerm KWord [98]%N;
                             FUnary KNot (FGroup KGroup (FOp KOr [FTerm KWord [99]%N;
                                                                  FORange KFrom false (FTerm KWord [49]%N)]))];
                   FORange KTo true (FTerm KWord [53]%N)]) /\
  (match parse q_main with Some (Ok t) => expected (TOpenRange false blank) t | _ => None end)
  = Some (FOp KUnknown [FTerm KWord [97]%N;
                        FOp KAnd [FTerm KWord [98]%N;
                                  FUnary KNot (FGroup KGroup (FOp KOr [FTerm KWord [99]%N;
                                                                       FRange false true (FTerm KWord [49]%N) fstar]))];
                        FRange true true fstar (FTerm KWord [53]%N)]).
Proof. split; vm_compute; reflexivity. Qed.

(* the Lucene mode really chooses per level: in `x y (a OR b -c)` = Unknown(x, y, Group(Or(a, Unknown(b, -c)))) the outer
   implicit operation is read as AND, the inner one, met after the OR of its group, as OR: `x AND y AND (a OR b OR -c)`;
   the reading is neither "all AND" nor "all OR" *)
Definition q_lucene : str := [120;32;121;32;40;97;32;79;82;32;98;32;45;99;41]%N.
Example C11m_lucene_per_level :
  linked (TResolve None blank) q_lucene [at_w 120; at_w 121; at_w 97] [at_w 120; at_w 97] /\
  exists t t', parse q_lucene = Some (Ok t) /\ resolve None blank t = Some t' /\
               chosen t' [] = KAnd /\ chosen t' [2; 0; 1] = KOr /\
               read_as (chosen t') t <> read_as (fun _ => KAnd) t /\ read_as (chosen t') t <> read_as (fun _ => KOr) t.
Proof.
  split; [link|].
  eexists. eexists. split; [vm_compute; reflexivity|]. split; [vm_compute; reflexivity|].
  split; [vm_compute; reflexivity|]. split; [vm_compute; reflexivity|]. split; vm_compute; discriminate.
Qed.

(* the instance in Meaning.v's own vocabulary: hypotheses hold for both targets *)
Example C11m_resolve_default_nonvacuous :
  exists t ta to, parse q_main = Some (Ok t) /\
    resolve (Some (dflt_op true)) blank t = Some ta /\ regen_ok ta = true /\
    resolve (Some (dflt_op false)) blank t = Some to /\ regen_ok to = true /\
    Meaning.sem true (val_of [at_w 97]) t = false /\ Meaning.sem false (val_of [at_w 97]) t = true.
Proof.
  eexists. eexists. eexists. split; [vm_compute; reflexivity|]. split; [vm_compute; reflexivity|].
  split; [vm_compute; reflexivity|]. split; [vm_compute; reflexivity|]. split; [vm_compute; reflexivity|].
  split; vm_compute; reflexivity.
Qed.

(* open ranges on the same query (nothing to merge: the comparisons have different parents), then C11r's
   >=1 AND <5 x:>"a b" -<=2 (>3)^2 where >=1 and <5 are merged into [1 TO 5} *)
Example C11m_openrange_nonvacuous :
  linked (TOpenRange false blank) q_main [at_w 97; at_w 98; at_r_to5] [at_w 97; at_w 98; at_to5] /\
  linked (TOpenRange true blank) q_main [at_w 97; at_w 98; at_r_to5] [at_w 97; at_w 98; at_to5].
Proof. split; link. Qed.

Definition at_ge1 : atom := ([], FRange true true (FTerm KWord [49]%N) fstar).
Definition at_lt5 : atom := ([], FRange true false fstar (FTerm KWord [53]%N)).
Definition at_x : atom := ([CxField [120]%N], FRange false true (FTerm KPhrase [34;97;32;98;34]%N) fstar).
Definition at_gt3 : atom := ([CxBoost (mkDec false 2 0)], FRange false true (FTerm KWord [51]%N) fstar).
Example C11m_openrange_merge_nonvacuous :
  linked (TOpenRange true blank) ex_or1 [at_ge1; at_lt5; at_x; at_gt3] [at_ge1; at_x; at_gt3] /\
  (* the merge happened: the output has one operand less and the atom [1 TO 5} *)
  (exists t t', parse ex_or1 = Some (Ok t) /\ open_range true blank t = Some t' /\
                mem_atom a_merged (atoms t') = true /\ fingerprint t' <> canon (fingerprint t)).
Proof.
  split; [link|]. eexists. eexists. split; [vm_compute; reflexivity|]. split; [vm_compute; reflexivity|].
  split; [vm_compute; reflexivity|vm_compute; discriminate].
Qed.

(* resolve, then open ranges: `>=1 <5 a` resolved to AND and merged prints `[1  TO 5 }AND a` (the brace is self-delimited) *)
Definition q_ro : str := [62;61;49;32;60;53;32;97]%N.
Example C11m_resolve_open_nonvacuous :
  linked (TResolveOpen (Some KAnd) true blank) q_ro [at_ge1; at_lt5; at_w 97] [at_ge1; at_w 97] /\
  linked (TResolveOpen None false blank) q_main [at_w 97; at_w 98; at_r_to5] [at_w 97; at_w 98] /\
  linked (TResolveOpen (Some KOr) true blank) q_main [at_r_to5] [at_w 99].
Proof. split; [link|]. split; link. Qed.

(* copy and auto_head_tail *)
Example C11m_copy_aht_nonvacuous :
  linked TAht ex_res3 [at_w 97; at_w 98; ([], FTerm KPhrase [34;99;34]%N); at_w 100; ([], FTerm KRegex [47;114;47]%N); at_w 120]
              [at_w 97] /\
  (exists t t', parse q_main = Some (Ok t) /\ copy t = Some t' /\ regen_ok t' = true /\ end_to_end TCopy t t').
Proof.
  split; [link|]. eexists. eexists. split; [vm_compute; reflexivity|].
  match goal with |- copy ?t = Some ?x /\ _ =>
    assert (Hp : parse q_main = Some (Ok t)) by (vm_compute; reflexivity);
    assert (Hr : run_t TCopy t = Some x) by (vm_compute; reflexivity);
    split; [exact Hr|];
    match goal with |- regen_ok ?y = true /\ _ =>
      assert (H : regen_ok y = true) by (vm_compute; reflexivity);
      split; [exact H|exact (C11_transformers_end_to_end q_main t TCopy y Hp Hr H)]
    end
  end.
Qed.

(* the shipped form *)
Example C11m_shipped_nonvacuous :
  shipped (run_t (TResolveOpen None true blank)) /\ shipped (run_t (TOpenRange true blank)) /\ shipped (run_t TAht).
Proof. split; [apply sh_resolve_open; reflexivity|]. split; [apply sh_open_range|apply sh_aht]. Qed.

Print Assumptions C11_resolve_end_to_end.
Print Assumptions C11_resolve_default_end_to_end.
Print Assumptions C11_openrange_end_to_end.
Print Assumptions C11_openrange_plain_fingerprint.
Print Assumptions C11_transformers_end_to_end.
Print Assumptions C11_shipped_end_to_end.
Print Assumptions C11m_range_respecting_needed.
Print Assumptions C11m_guard_needed.
