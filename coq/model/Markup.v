(* Markup.v — reading the OUTPUT STRING of HTMLMarker as markup.  Executable definitions only.

   Marker.v states C17 on the marker's own segment list.  Here the output is taken as what the caller
   gets — one flat string — and read back the way a consumer of the markup would: left to right,
   recognising exactly the three tags HTMLMarker can emit for the parameters (ok_class, ko_class, element)

        <{element} class="{ok_class}">      <{element} class="{ko_class}">      </{element}>

   (luqum/naming.py HTMLMarker.mark_node: f'<{self.element} class="{node_class}">', f'</{self.element}>';
   the same strings as Marker.open_tag / Marker.close_tag).  Everything else is a character of text.
   The reader knows NOTHING about the tree or about where the marker put its tags.

     scan_markup   the token list (Text [c] | Open cls | Close) of a string; total
     read_markup   None when the tags are not properly nested, else the text without the tags and, for
                   every character of it, the class of the innermost element open at that character

   The guards of props/C17m.v are here too (executable):
     no_tag_in      none of the three tags occurs as a substring of a text
     no_tag_in_text ... of the text the marker copies from the tree (the printed default copy)
     params_ok      the three tags can be told apart: element and classes contain no '<' and no tag is
                    a proper prefix of another one *)
Require Import Base Decimal Tree GenTree GenVisitors Visitor Print Eq Marker.

(* ---------------------------------------------------------------- prefixes, substrings *)
Fixpoint is_prefix (p s : str) : bool :=
  match p, s with
  | [], _ => true
  | a :: p', b :: s' => N.eqb a b && is_prefix p' s'
  | _ :: _, [] => false
  end.

(* p occurs in s (at some offset) *)
Fixpoint infixb (p s : str) : bool :=
  is_prefix p s || match s with [] => false | _ :: s' => infixb p s' end.

Definition has_lt (s : str) : bool := existsb (N.eqb c_lt) s.

(* every Text segment cut into one-character segments (empty ones disappear) *)
Fixpoint explode (l : list seg) : list seg :=
  match l with
  | [] => []
  | Text s :: l' => map (fun c => Text [c]) s ++ explode l'
  | x :: l' => x :: explode l'
  end.

Section Scan.
  Variables elem okc koc : str.        (* element, ok_class, ko_class *)

  Definition marker_tags : list str := [open_tag elem okc; open_tag elem koc; close_tag elem].

  (* the tag, if any, that starts here, and its length *)
  Definition tag_at (s : str) : option (seg * nat) :=
    if is_prefix (open_tag elem okc) s then Some (Open okc, length (open_tag elem okc))
    else if is_prefix (open_tag elem koc) s then Some (Open koc, length (open_tag elem koc))
    else if is_prefix (close_tag elem) s then Some (Close, length (close_tag elem))
    else None.

  (* left-to-right tokenizer.  `skip` = number of characters still to be passed over because they
     belong to the tag recognised last (structural recursion on the string: no fuel, no failure) *)
  Fixpoint scan_go (skip : nat) (s : str) : list seg :=
    match s with
    | [] => []
    | c :: s' =>
        match skip with
        | S k => scan_go k s'
        | O =>
            match tag_at s with
            | Some (tok, n) => tok :: scan_go (pred n) s'
            | None => Text [c] :: scan_go 0 s'
            end
        end
    end.

  Definition scan_markup (out : str) : list seg := scan_go 0 out.

  (* the output read as markup: proper nesting is Marker.bal (a closing tag with nothing open, or an
     element left open at the end, is an error); the text is what is left when the tags are removed;
     the class of a character is the class of the innermost open element (None: no element open) *)
  Definition read_markup (out : str) : option (str * list (option str)) :=
    let toks := scan_markup out in
    if bal 0 toks then Some (texts toks, classes_per_char toks) else None.

  (* ---------------------------------------------------------------- guards *)
  Definition no_tag_in (s : str) : bool := forallb (fun tg => negb (infixb tg s)) marker_tags.

  (* the texts the marker copies from the tree, in output order, are the printed default copy *)
  Definition no_tag_in_text (t : item) : bool :=
    match tcopy t with
    | Some t' => no_tag_in (print true t')
    | None => false
    end.

  (* the parameters give three tags that can be told apart *)
  Definition params_ok : bool :=
    negb (has_lt elem) && negb (has_lt okc) && negb (has_lt koc) &&
    forallb (fun a => forallb (fun b => negb (is_prefix a b) || str_eqb a b) marker_tags) marker_tags.

  (* a simple sufficient condition for params_ok (proofs/MarkupProofs.v, params_simple_ok): no '<' and
     no double quote in the classes, no '<' in the element name, which does not start with '/' *)
  Definition params_simple : bool :=
    negb (has_lt elem) && negb (has_lt okc) && negb (has_lt koc) &&
    negb (existsb (N.eqb c_quote) okc) && negb (existsb (N.eqb c_quote) koc) &&
    match elem with c :: _ => negb (N.eqb c c_slash) | [] => true end.
  (* ---------------------------------------------------------------- the exact criterion, on segments *)
  (* no tag starts at a character of the text s when s is followed by rest (a tag that starts in s and
     runs into rest included) *)
  Fixpoint clean_text (s rest : str) : bool :=
    match s with
    | [] => true
    | _ :: s' => match tag_at (s ++ rest) with None => true | Some _ => false end && clean_text s' rest
    end.

  (* ... at any text character of the flattening of sg *)
  Fixpoint clean_segs (sg : list seg) : bool :=
    match sg with
    | [] => true
    | Text s :: sg' => clean_text s (flatten elem sg') && clean_segs sg'
    | _ :: sg' => clean_segs sg'
    end.

  (* ... of the marker's output for these paths and this mode: narrower than no_tag_in_text (it depends on
     where the elements are inserted), and exactly what the tokenizer needs (MarkupProofs.scan_exact) *)
  Definition clean_output (parci : bool) (t : item) (ok ko : list path) : bool :=
    match tcopy t with
    | Some t' => clean_segs (msegs (tag_class okc koc parci ok ko) t' [])
    | None => false
    end.
End Scan.
