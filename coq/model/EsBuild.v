(* EsBuild.v — luqum.elasticsearch.visitor.ElasticsearchQueryBuilder and the E-items of
   luqum.elasticsearch.tree (EWord, EPhrase, ERange, ENested, EMust, EShould, EMustNot,
   EBoolOperation, ElasticSearchItemFactory).  Executable definitions only.

   build : es_config -> item -> eres json      = ElasticsearchQueryBuilder(config...)(tree)

   The model follows the code as it is:
   * __call__ first runs CheckNestedFields to completion (EsCheck.v), then visits, then takes
     `[0].json`.
   * handlers are found through Visitor.dispatch on gen_methods_ElasticsearchQueryBuilder.
   * generators: every visit yields a list of E-items (0 or 1 with the shipped method table);
     single-value unpacking `x, = ...` of another length is ValueError; `[0]` of nothing IndexError.
   * _binary_operation consumes simplify_if_same / _yield_nested_children lazily: for each operand in
     turn, an operand of the very same class THAT HAS NO NAME OF ITS OWN (`get_name(child) is None`) is
     replaced by its own operands (recursively, visited with the OUTER operation's child context, which
     is also what the un-named inner operation would hand down); an operand of the same class that has
     a name is kept and visited like any other operand, so that its name reaches its elements;
     otherwise the AND/OR mix test comes first, then the operand is visited.  So the exception that
     wins is the first one in that order.  This is the `par` argument of `visit`.
   * E-items are mutable objects; the model is value based.  That is faithful because a leaf is
     only mutated (boost, fuzziness, slop) before it is put into an operation, and
     zero_terms_query is overwritten by EMust/EMustNot on their direct items at construction.
     Attributes set on operations / nested items (boost, fuzziness, slop, zero_terms_query) are
     never read by their `json` and are dropped.
   * floats are not modelled: boost / fuzziness / slop carry the exact decimal float() is applied to.
   * context["parents"] is maintained by the code but never read by the builder: not modelled.
   * class-level constants of luqum.elasticsearch.tree come from gen/GenEs.v (generated).  The builder's
     MUST / SHOULD values are used by the harness when it maps default_operator to `defop`. *)
Require Import Base Decimal Tree GenTree GenVisitors GenChars GenEs Visitor Json EsSpecs EsCheck.

(* ---------------------------------------------------------------- string constants *)
Definition k_term : str := [116;101;114;109]%N.   (* "term" *)
Definition k_match : str := [109;97;116;99;104]%N.   (* "match" *)
Definition k_match_phrase : str := [109;97;116;99;104;95;112;104;114;97;115;101]%N.   (* "match_phrase" *)
Definition k_range : str := [114;97;110;103;101]%N.   (* "range" *)
Definition k_fuzzy : str := [102;117;122;122;121]%N.   (* "fuzzy" *)
Definition k_wildcard : str := [119;105;108;100;99;97;114;100]%N.   (* "wildcard" *)
Definition k_query_string : str := [113;117;101;114;121;95;115;116;114;105;110;103]%N.   (* "query_string" *)
Definition k_multi_match : str := [109;117;108;116;105;95;109;97;116;99;104]%N.   (* "multi_match" *)
Definition k_match_type : str := [109;97;116;99;104;95;116;121;112;101]%N.   (* "match_type" *)
Definition k_type : str := [116;121;112;101]%N.   (* "type" *)
Definition k_boost : str := [98;111;111;115;116]%N.   (* "boost" *)
Definition k_fuzziness : str := [102;117;122;122;105;110;101;115;115]%N.   (* "fuzziness" *)
Definition k_name : str := [95;110;97;109;101]%N.   (* "_name" *)
Definition k_q : str := [113]%N.   (* "q" *)
Definition k_slop : str := [115;108;111;112]%N.   (* "slop" *)
Definition k_lt : str := [108;116]%N.   (* "lt" *)
Definition k_lte : str := [108;116;101]%N.   (* "lte" *)
Definition k_gt : str := [103;116]%N.   (* "gt" *)
Definition k_gte : str := [103;116;101]%N.   (* "gte" *)
Definition k_query : str := [113;117;101;114;121]%N.   (* "query" *)
Definition k_zero_terms_query : str := [122;101;114;111;95;116;101;114;109;115;95;113;117;101;114;121]%N.   (* "zero_terms_query" *)
Definition k_default_field : str := [100;101;102;97;117;108;116;95;102;105;101;108;100]%N.   (* "default_field" *)
Definition k_analyze_wildcard : str := [97;110;97;108;121;122;101;95;119;105;108;100;99;97;114;100]%N.   (* "analyze_wildcard" *)
Definition k_allow_leading_wildcard : str := [97;108;108;111;119;95;108;101;97;100;105;110;103;95;119;105;108;100;99;97;114;100]%N.   (* "allow_leading_wildcard" *)
Definition k_value : str := [118;97;108;117;101]%N.   (* "value" *)
Definition k_exists : str := [101;120;105;115;116;115]%N.   (* "exists" *)
Definition k_field : str := [102;105;101;108;100]%N.   (* "field" *)
Definition k_bool : str := [98;111;111;108]%N.   (* "bool" *)
Definition k_must : str := [109;117;115;116]%N.   (* "must" *)
Definition k_should : str := [115;104;111;117;108;100]%N.   (* "should" *)
Definition k_must_not : str := [109;117;115;116;95;110;111;116]%N.   (* "must_not" *)
Definition k_nested : str := [110;101;115;116;101;100]%N.   (* "nested" *)
Definition k_path : str := [112;97;116;104]%N.   (* "path" *)
Definition k_none : str := [110;111;110;101]%N.   (* "none" *)
Definition k_all : str := [97;108;108]%N.   (* "all" *)
Definition k_star : str := [c_star].
Definition c_qmark : char := 63%N.

(* ---------------------------------------------------------------- results *)
Inductive eres (A : Type) := ROk (a : A) | RExc (e : es_exc).
Arguments ROk {A} a.
Arguments RExc {A} e.

(* ---------------------------------------------------------------- configuration *)
(* default_operator is compared with == against MUST / SHOULD; any other value is DOtherOp *)
Inductive defop := DShould | DMust | DOtherOp.

Record es_config := mkEsConfig {
  c_default_operator : defop;
  c_default_field : str;
  c_not_analyzed : list str;                         (* not_analyzed_fields (None / empty = []) *)
  c_nested : spec;                                   (* nested_fields, raw *)
  c_object : spec;                                   (* object_fields, raw *)
  c_sub : spec;                                      (* sub_fields, raw *)
  c_field_options : list (str * list (str * json));  (* field_options (None = {}) *)
  c_match_word_as_phrase : bool }.

Definition default_config : es_config :=             (* ElasticsearchQueryBuilder() *)
  mkEsConfig DShould [116;101;120;116]%N [] SNone SNone SNone [] false.

(* what __init__ derives *)
Record es_env := mkEsEnv {
  ev_nested : spec;                        (* self.nested_fields (normalised) *)
  ev_nested_prefixes : list str;           (* self._nested_prefixes *)
  ev_object : option (list str);           (* self.object_fields *)
  ev_chk : chk_env }.                      (* self.nesting_checker *)

Definition mk_env (cfg : es_config) : es_env :=
  let nst := normalize_nested (c_nested cfg) in
  let obj := normalize_object (c_object cfg) in
  mkEsEnv nst (prefixes_of (flatten_nested nst)) obj
          (mk_chk_env nst (spec_of_set obj) (c_sub cfg)).

Definition str_or_absent (o : option json) : bool :=
  match o with None | Some (JStr _) => true | _ => false end.

Definition wf_config (cfg : es_config) : bool :=
  spec_wf (c_nested cfg) && spec_wf (c_object cfg) && spec_wf (c_sub cfg) &&
  nodup_keys (map fst (c_field_options cfg)) &&
  forallb (fun fo => json_wf (JObj (snd fo))) (c_field_options cfg) &&
  (* the match_type / type options, which can become the method name, are str *)
  forallb (fun fo => str_or_absent (obj_get [109;97;116;99;104;95;116;121;112;101]%N (snd fo)) &&
                     str_or_absent (obj_get [116;121;112;101]%N (snd fo))) (c_field_options cfg).

(* ---------------------------------------------------------------- E-items *)
Inductive lkind := LWord | LPhrase | LRange.         (* EWord / EPhrase / ERange *)

Record leaf := mkLeaf {
  l_kind : lkind;
  l_method : str;                (* self._method *)
  l_fields : list str;           (* self._fields *)
  l_q : option str;              (* self.q (absent on ERange) *)
  l_bounds : list (str * str);   (* ERange: the attributes among lt / lte / gt / gte that were set *)
  l_boost : option dec;          (* self.boost *)
  l_fuzzy : option dec;          (* self._fuzzy *)
  l_slop : option dec;           (* EPhrase._proximity; a plain `slop` attribute on the others *)
  l_ztq : str;                   (* self.zero_terms_query *)
  l_name : option str;           (* self._name (absent = None) *)
  l_addkeys : list str }.        (* self.ADDITIONAL_KEYS_TO_ADD of the instance *)

Inductive eopk := EKMust | EKShould | EKMustNot | EKBool.   (* EMust / EShould / EMustNot / EBoolOperation *)

Inductive eitem :=
| ELeaf (l : leaf)
| ENested (path : str) (name : option str) (it : eitem)
| EOp (k : eopk) (items : list eitem).

Definition EMust := EOp EKMust.
Definition EShould := EOp EKShould.
Definition EMustNot := EOp EKMustNot.
Definition EBool := EOp EKBool.

Definition eopk_eqb (a b : eopk) : bool :=
  match a, b with
  | EKMust, EKMust | EKShould, EKShould | EKMustNot, EKMustNot | EKBool, EKBool => true
  | _, _ => false
  end.

(* class-level constants of luqum.elasticsearch.tree: GENERATED (gen/GenEs.v).  That they are tuples /
   str (so that `+=` on an instance rebinds an instance attribute and never mutates the class value) is
   the generated fact gen_e_consts_immutable, a tie obligation of C06. *)
(* <E class>._KEYS_TO_ADD *)
Definition class_keys (k : lkind) : list str :=
  match k with
  | LWord => gen_EWord_keys_to_add
  | LPhrase => gen_EPhrase_keys_to_add
  | LRange => gen_ERange_keys_to_add
  end.
(* <E class>.ADDITIONAL_KEYS_TO_ADD *)
Definition class_addkeys (k : lkind) : list str :=
  match k with
  | LWord => gen_EWord_additional_keys_to_add
  | LPhrase => gen_EPhrase_additional_keys_to_add
  | LRange => gen_ERange_additional_keys_to_add
  end.
(* AbstractEItem.__init__: self.zero_terms_query = 'none' *)
Definition ztq_default : str := gen_default_zero_terms_query.
(* EMust.zero_terms_query, EMustNot.zero_terms_query; <E class>.operation *)
Definition ztq_of_op (k : eopk) : option str :=
  match k with
  | EKMust => Some gen_EMust_zero_terms_query
  | EKMustNot => Some gen_EMustNot_zero_terms_query
  | EKShould | EKBool => None
  end.
Definition op_key (k : eopk) : str :=
  match k with
  | EKMust => gen_EMust_operation
  | EKShould => gen_EShould_operation
  | EKMustNot => gen_EMustNot_operation
  | EKBool => k_bool
  end.

Definition is_space (c : char) : bool := in_ranges gen_cc_space c.

(* re.sub(r'\s+', ' ', phrase) *)
Fixpoint collapse_ws (in_ws : bool) (s : str) : str :=
  match s with
  | [] => []
  | c :: s' =>
      if is_space c then (if in_ws then collapse_ws true s' else c_space :: collapse_ws true s')
      else c :: collapse_ws false s'
  end.

(* s[1:-1] *)
Definition strip_ends (s : str) : str := removelast (tl s).

(* EWord(q, method=..., fields=..., _name=...) *)
Definition mk_word (q method : str) (fields : list str) (name : option str) : leaf :=
  mkLeaf LWord method fields (Some q) [] None None None ztq_default name (class_addkeys LWord).

(* EPhrase(phrase, fields=..., _name=...) *)
Definition mk_phrase (phrase : str) (fields : list str) (name : option str) : leaf :=
  mkLeaf LPhrase k_match_phrase fields (Some (strip_ends (collapse_ws false phrase))) []
         None None None ztq_default name (class_addkeys LPhrase).

(* `if lt and lt != '*'` *)
Definition bound_kept (v : str) : bool :=
  match v with [] => false | _ => negb (str_eqb v k_star) end.

(* ERange({low_key: low, high_key: high} as keywords, fields=..., _name=...): the upper bound is examined
   first (lt, elif lte), then the lower one (gt, elif gte) *)
Definition mk_range (low_key low high_key high : str) (fields : list str) (name : option str) : leaf :=
  let bounds := (if bound_kept high then [(high_key, high)] else []) ++
                (if bound_kept low then [(low_key, low)] else []) in
  mkLeaf LRange k_range fields None bounds None None None ztq_default name
         (class_addkeys LRange ++ map fst bounds).

Definition leaf_set_boost (d : dec) (l : leaf) : leaf :=
  mkLeaf (l_kind l) (l_method l) (l_fields l) (l_q l) (l_bounds l) (Some d) (l_fuzzy l) (l_slop l)
         (l_ztq l) (l_name l) (l_addkeys l).
(* fuzziness setter: self._method = 'fuzzy' *)
Definition leaf_set_fuzziness (d : dec) (l : leaf) : leaf :=
  mkLeaf (l_kind l) k_fuzzy (l_fields l) (l_q l) (l_bounds l) (l_boost l) (Some d) (l_slop l)
         (l_ztq l) (l_name l) (l_addkeys l).
(* EPhrase.slop setter: self.ADDITIONAL_KEYS_TO_ADD += ('slop',); plain attribute elsewhere *)
Definition leaf_set_slop (d : dec) (l : leaf) : leaf :=
  mkLeaf (l_kind l) (l_method l) (l_fields l) (l_q l) (l_bounds l) (l_boost l) (l_fuzzy l) (Some d)
         (l_ztq l) (l_name l)
         (match l_kind l with LPhrase => l_addkeys l ++ [k_slop] | _ => l_addkeys l end).
Definition leaf_set_ztq (z : str) (l : leaf) : leaf :=
  mkLeaf (l_kind l) (l_method l) (l_fields l) (l_q l) (l_bounds l) (l_boost l) (l_fuzzy l) (l_slop l)
         z (l_name l) (l_addkeys l).

Definition on_leaf (f : leaf -> leaf) (e : eitem) : eitem :=
  match e with ELeaf l => ELeaf (f l) | _ => e end.

(* EMust(items) / EMustNot(items) / EShould(items) / EBoolOperation(items) *)
Definition mk_op (k : eopk) (items : list eitem) : eitem :=
  EOp k (match ztq_of_op k with
         | Some z => map (on_leaf (leaf_set_ztq z)) items
         | None => items
         end).

(* ENested._exclude_nested_children *)
Fixpoint exclude_nested (path : str) (e : eitem) : eitem :=
  match e with
  | ENested p n it => if str_eqb p path then exclude_nested path it else e
  | EOp k items => EOp k (map (exclude_nested path) items)
  | ELeaf _ => e
  end.

(* ENested(nested_path=..., items=enode, _name=...) *)
Definition mk_nested (path : str) (name : option str) (it : eitem) : eitem :=
  ENested path name (exclude_nested path it).

Definition is_enested (e : eitem) : bool := match e with ENested _ _ _ => true | _ => false end.

(* ---------------------------------------------------------------- json of E-items *)
(* Term.has_wildcard: WILDCARDS_PATTERN = ((?<=[^\\])[?*]|\\\\[?*]|^[?*]) has a match *)
Definition is_wild (c : char) : bool := N.eqb c c_star || N.eqb c c_qmark.

Fixpoint has_wildcard_from (prev : option char) (s : str) : bool :=
  match s with
  | [] => false
  | c :: s' =>
      (is_wild c && match prev with None => true | Some p => negb (N.eqb p c_bslash) end) ||
      (N.eqb c c_bslash && match s' with
                           | c1 :: c2 :: _ => N.eqb c1 c_bslash && is_wild c2
                           | _ => false
                           end) ||
      has_wildcard_from (Some c) s'
  end.
Definition has_wildcard (s : str) : bool := has_wildcard_from None s.

Definition nonempty (s : str) : bool := match s with [] => false | _ => true end.

Definition leaf_field (l : leaf) : str := dotted (l_fields l).

(* _value_has_wildcard_char: Term(getattr(self, 'q', '')).has_wildcard(); False on EPhrase *)
Definition leaf_has_wildcard (l : leaf) : bool :=
  match l_kind l with
  | LPhrase => false
  | _ => has_wildcard (match l_q l with Some q => q | None => [] end)
  end.

Definition field_opts (cfg : es_config) (field : str) : jobj :=
  match obj_get field (c_field_options cfg) with Some o => o | None => [] end.

(* the `method` property; a JSON value because field_options may hold anything *)
Definition leaf_method (cfg : es_config) (l : leaf) : json :=
  let field := leaf_field l in
  let analyzed := negb (mem_str field (c_not_analyzed cfg)) in
  let wc := leaf_has_wildcard l in
  if negb analyzed && wc then JStr k_wildcard
  else if analyzed && wc then JStr k_query_string
  else if analyzed && starts_with k_match (l_method l) then
    let opts := field_opts cfg field in
    match obj_get k_match_type opts with
    | Some v => v
    | None => match obj_get k_type opts with Some v => v | None => JStr (l_method l) end
    end
  else JStr (l_method l).

(* getattr(self, key, None) for the keys that can be listed *)
Definition leaf_attr (l : leaf) (key : str) : option json :=
  if str_eqb key k_boost then option_map JNum (l_boost l)
  else if str_eqb key k_fuzziness then option_map JNum (l_fuzzy l)
  else if str_eqb key k_name then option_map JStr (l_name l)
  else if str_eqb key k_q then option_map JStr (l_q l)
  else if str_eqb key k_slop then option_map JNum (l_slop l)
  else option_map JStr (obj_get key (l_bounds l)).

Definition obj_get_default (k : str) (d : json) (o : jobj) : json :=
  match obj_get k o with Some v => v | None => d end.

(* one turn of `for key in keys:` in AbstractEItem.json *)
Definition add_key (l : leaf) (m : str) (inner : jobj) (key : str) : jobj :=
  match leaf_attr l key with
  | None => inner
  | Some v =>
      if str_eqb key k_q then
        if contains k_match m then
          let i1 := obj_set k_query v inner in
          if str_eqb m k_match then obj_set k_zero_terms_query (JStr (l_ztq l)) i1 else i1
        else if str_eqb m k_query_string then
          let i1 := obj_set k_query v inner in
          let i2 := obj_set k_default_field (JStr (leaf_field l)) i1 in
          let i3 := obj_set k_analyze_wildcard (obj_get_default k_analyze_wildcard (JBool true) i2) i2 in
          obj_set k_allow_leading_wildcard (obj_get_default k_allow_leading_wildcard (JBool true) i3) i3
        else obj_set k_value v inner
      else obj_set key v inner
  end.

(* field options without match_type, and without type unless match_type was truthy *)
Definition base_options (cfg : es_config) (field : str) : jobj :=
  let o := field_opts cfg field in
  let keep_type := match obj_get k_match_type o with Some v => json_truthy v | None => false end in
  let o1 := obj_remove k_match_type o in
  if keep_type then o1 else obj_remove k_type o1.

(* AbstractEItem.json / EWord.json *)
Definition leaf_json (cfg : es_config) (l : leaf) : eres json :=
  let field := leaf_field l in
  let is_star := match l_kind l, l_q l with LWord, Some q => str_eqb q k_star | _, _ => false end in
  if is_star then
    ROk (JObj [(k_exists, JObj ((k_field, JStr field) ::
                                match l_name l with Some n => [(k_name, JStr n)] | None => [] end))])
  else
    match leaf_method cfg l with
    | JStr m =>
        let inner := fold_left (add_key l m) (class_keys (l_kind l) ++ l_addkeys l) (base_options cfg field) in
        if str_eqb m k_query_string || str_eqb m k_multi_match
        then ROk (JObj [(m, JObj inner)])
        else ROk (JObj [(m, JObj [(field, JObj inner)])])
    | _ => RExc (XOther KTypeError)        (* unhashable key / `'match' in <non-str>` *)
    end.

Definition jmap (f : eitem -> eres json) :=
  fix go (l : list eitem) : eres (list json) :=
    match l with
    | [] => ROk []
    | x :: l' =>
        match f x with
        | RExc e => RExc e
        | ROk j => match go l' with RExc e => RExc e | ROk js => ROk (j :: js) end
        end
    end.

(* EBoolOperation.json: items of EMust / EMustNot items are spliced, the rest is `should` *)
Definition bool_parts (f : eitem -> eres json) :=
  fix go (l : list eitem) : eres (list json * list json * list json) :=
    match l with
    | [] => ROk ([], [], [])
    | it :: l' =>
        let here : eres (list json * list json * list json) :=
          match it with
          | EOp EKMust sub =>
              match jmap f sub with RExc e => RExc e | ROk js => ROk (js, [], []) end
          | EOp EKMustNot sub =>
              match jmap f sub with RExc e => RExc e | ROk js => ROk ([], [], js) end
          | _ => match f it with RExc e => RExc e | ROk j => ROk ([], [j], []) end
          end in
        match here with
        | RExc e => RExc e
        | ROk (m1, s1, n1) =>
            match go l' with
            | RExc e => RExc e
            | ROk (m2, s2, n2) => ROk (m1 ++ m2, s1 ++ s2, n1 ++ n2)
            end
        end
    end.

Definition opt_entry (k : str) (js : list json) : jobj :=
  match js with [] => [] | _ => [(k, JList js)] end.

Fixpoint ejson (cfg : es_config) (e : eitem) : eres json :=
  match e with
  | ELeaf l => leaf_json cfg l
  | ENested p n it =>
      match ejson cfg it with
      | RExc e => RExc e
      | ROk j =>
          ROk (JObj [(k_nested,
                      JObj ([(k_path, JStr p); (k_query, j)] ++
                            match n with
                            | Some nm => if nonempty nm then [(k_name, JStr nm)] else []
                            | None => []
                            end))])
      end
  | EOp EKBool items =>
      match bool_parts (ejson cfg) items with
      | RExc e => RExc e
      | ROk (m, s, n) =>
          ROk (JObj [(k_bool, JObj (opt_entry k_must m ++ opt_entry k_should s ++ opt_entry k_must_not n))])
      end
  | EOp k items =>
      match jmap (ejson cfg) items with
      | RExc e => RExc e
      | ROk js => ROk (JObj [(k_bool, JObj [(op_key k, JList js)])])
      end
  end.

(* ---------------------------------------------------------------- the visitor *)
Record ectx := mkECtx {
  x_prefix : option (list str);      (* context["field_prefix"], None = key absent *)
  x_analyzed : option bool;          (* context["analyzed"] *)
  x_name : option str }.             (* context["name"] *)
Definition ctx0 : ectx := mkECtx None None None.       (* visit(tree): context = {} *)

Definition field_prefix (cx : ectx) : list str :=
  match x_prefix cx with Some p => p | None => [] end.
Definition ctx_fields (cfg : es_config) (cx : ectx) : list str :=
  match x_prefix cx with Some p => p | None => [c_default_field cfg] end.
Definition ctx_is_analyzed (cfg : es_config) (cx : ectx) : bool :=
  match x_analyzed cx with
  | Some b => b
  | None => negb (mem_str (c_default_field cfg) (c_not_analyzed cfg))
  end.

(* _propagate_name: `if name:` *)
Definition propagate_name (t : item) (cx : ectx) : ectx :=
  match name_of t with
  | Some n => if nonempty n then mkECtx (x_prefix cx) (x_analyzed cx) (Some n) else cx
  | None => cx
  end.
(* self.get_name(node, context) *)
Definition get_name (t : item) (cx : ectx) : option str :=
  match name_of t with Some n => Some n | None => x_name cx end.

(* _split_nested: the longest prefix + names[:k] (k = len .. 1) that is a nested prefix *)
Fixpoint try_prefixes (np : list str) (pre names : list str) (k : nat) : option str :=
  match k with
  | O => None
  | S k' =>
      let cand := dotted (pre ++ firstn k names) in
      if mem_str cand np then Some cand else try_prefixes np pre names k'
  end.
Definition split_nested (env : es_env) (fname : str) (cx : ectx) : option str :=
  let names := split_on c_dot fname in
  try_prefixes (ev_nested_prefixes env) (field_prefix cx) names (length names).

Definition is_must (cfg : es_config) (c : cls) : bool :=
  isinstance c CAndOperation ||
  (isinstance c CUnknownOperation && match c_default_operator cfg with DMust => true | _ => false end).
Definition is_should (cfg : es_config) (c : cls) : bool :=
  isinstance c COrOperation ||
  (isinstance c CUnknownOperation && match c_default_operator cfg with DShould => true | _ => false end).
(* the test of _yield_nested_children *)
Definition mixes (cfg : es_config) (parent child : cls) : bool :=
  (is_should cfg parent && is_must cfg child) || (is_must cfg parent && is_should cfg child).

(* the handler the builder runs on a node of class c *)
Inductive bhandler :=
| BWord | BPhrase | BField | BRange | BFuzzy | BProximity | BBoost
| BBinary (k : eopk)       (* _binary_operation(E class, ...) *)
| BNot                     (* visit_not / visit_prohibit *)
| BGeneric.

Definition bhandler_of (cfg : es_config) (c : cls) : bhandler :=
  match dispatch gen_methods_ElasticsearchQueryBuilder c with
  | Some CWord => BWord
  | Some CPhrase => BPhrase
  | Some CSearchField => BField
  | Some CRange => BRange
  | Some CFuzzy => BFuzzy
  | Some CProximity => BProximity
  | Some CBoost => BBoost
  | Some CAndOperation => BBinary EKMust
  | Some COrOperation => BBinary EKShould
  | Some CUnknownOperation =>
      BBinary (match c_default_operator cfg with DShould => EKShould | _ => EKMust end)
  | Some CBoolOperation => BBinary EKBool
  | Some CPlus => BBinary EKMust
  | Some CNot | Some CProhibit => BNot
  | _ => BGeneric
  end.

(* tie obligation: every specific handler of the builder is one the model knows *)
Definition builder_methods_known : bool :=
  forallb (fun c => mem_cls c [CWord; CPhrase; CSearchField; CRange; CFuzzy; CProximity; CBoost;
                               CAndOperation; COrOperation; CUnknownOperation; CBoolOperation;
                               CPlus; CNot; CProhibit])
          gen_methods_ElasticsearchQueryBuilder.

Definition value_of (t : item) : option str := match t with Term _ _ v => Some v | _ => None end.
(* float(node.degree) / float(node.force): the decimal handed to float() *)
Definition degree_of (t : item) : option dec :=
  match t with
  | Fuzzy _ _ d _ => Some d
  | Proximity _ _ z _ => Some (dec_of_Z z)
  | _ => None
  end.
Definition force_of (t : item) : option dec := match t with Boost _ _ f _ => Some f | _ => None end.
(* ElasticsearchQueryBuilder._range_bound: "-" + bound.a.value for a Prohibit bound, else bound.value;
   None = AttributeError *)
Definition range_bound_value (b : item) : option str :=
  if isinstance (cls_of b) CProhibit then
    match b with
    | Unary _ _ a => option_map (fun v => c_minus :: v) (value_of a)
    | _ => None
    end
  else value_of b.
Definition range_flags (t : item) : option (bool * bool) :=
  match t with Range _ _ _ il ih => Some (il, ih) | _ => None end.

(* `x, = <generator>` *)
Definition single (r : eres (list eitem)) : eres eitem :=
  match r with
  | RExc e => RExc e
  | ROk [x] => ROk x
  | ROk _ => RExc (XOther KValueError)
  end.

(* visiting a list of nodes one after the other, concatenating what they yield *)
Definition walk (f : item -> option cls -> ectx -> eres (list eitem)) (par : option cls) (cx : ectx) :=
  fix go (l : list item) : eres (list eitem) :=
    match l with
    | [] => ROk []
    | c :: l' =>
        match f c par cx with
        | RExc e => RExc e
        | ROk its => match go l' with RExc e => RExc e | ROk its' => ROk (its ++ its') end
        end
    end.

(* simplify_if_same: `type(child) is type(current_node) and get_name(child) is None` — the operand t of an
   operation of class p is replaced by its own operands.  ('' is a name: `is None`, not truthiness.) *)
Definition unnamed (t : item) : bool := match name_of t with None => true | Some _ => false end.
Definition flattened (t : item) (p : cls) : bool := cls_eqb (cls_of t) p && unnamed t.

(* visit_iter(node, context), given the children cs of the node and the visit function `rec` for them.
   par = Some p: the node is being enumerated as an operand of a _binary_operation on a node of
   class p, cx being that operation's child context (simplify_if_same + _yield_nested_children). *)
Definition visit_via (cfg : es_config) (env : es_env)
           (rec : item -> option cls -> ectx -> eres (list eitem))
           (t : item) (par : option cls) (cx : ectx) (cs : list item) : eres (list eitem) :=
    (* generic_visit(node, context) of the builder: propagate the name, visit the children *)
    let generic (c : ectx) := walk rec None (propagate_name t c) cs in
    let normal : eres (list eitem) :=
      match bhandler_of cfg (cls_of t) with
      | BWord =>
          match value_of t with
          | None => RExc (XOther KAttributeError)
          | Some v =>
              let method := if ctx_is_analyzed cfg cx
                            then (if c_match_word_as_phrase cfg then k_match_phrase else k_match)
                            else k_term in
              ROk [ELeaf (mk_word v method (ctx_fields cfg cx) (get_name t cx))]
          end
      | BPhrase =>
          match value_of t with
          | None => RExc (XOther KAttributeError)
          | Some v =>
              if ctx_is_analyzed cfg cx
              then ROk [ELeaf (mk_phrase v (ctx_fields cfg cx) (get_name t cx))]
              else ROk [ELeaf (mk_word (strip_ends v) k_term (ctx_fields cfg cx) (get_name t cx))]
          end
      | BRange =>
          match t with
          | Range _ lo hi il ih =>
              match range_bound_value lo, range_bound_value hi with
              | Some vlo, Some vhi =>
                  ROk [ELeaf (mk_range (if il then k_gte else k_gt) vlo
                                       (if ih then k_lte else k_lt) vhi
                                       (ctx_fields cfg cx) (get_name t cx))]
              | _, _ => RExc (XOther KAttributeError)     (* _range_bound(node.low / node.high) *)
              end
          | _ => RExc (XOther KAttributeError)
          end
      | BField =>
          match field_name t with
          | None => RExc (XOther KAttributeError)
          | Some n =>
              let prefix := field_prefix cx ++ split_on c_dot n in
              let name := dotted prefix in
              let cctx := propagate_name t
                            (mkECtx (Some prefix) (Some (negb (mem_str name (c_not_analyzed cfg))))
                                    (x_name cx)) in
              match single (walk rec None cctx cs) with
              | RExc e => RExc e
              | ROk enode =>
                  match split_nested env n cx with
                  | Some p => if is_enested enode then ROk [enode]
                              else ROk [mk_nested p (get_name t cx) enode]
                  | None => ROk [enode]
                  end
              end
          end
      | BBoost =>
          match single (generic cx) with
          | RExc e => RExc e
          | ROk e =>
              match force_of t with
              | Some f => ROk [on_leaf (leaf_set_boost f) e]
              | None => RExc (XOther KAttributeError)
              end
          end
      | BFuzzy =>
          match single (generic cx) with
          | RExc e => RExc e
          | ROk e =>
              match degree_of t with
              | Some d => ROk [on_leaf (leaf_set_fuzziness d) e]
              | None => RExc (XOther KAttributeError)
              end
          end
      | BProximity =>
          match single (generic cx) with
          | RExc e => RExc e
          | ROk e =>
              match degree_of t with
              | Some d =>
                  if ctx_is_analyzed cfg cx then ROk [on_leaf (leaf_set_slop d) e]
                  else ROk [on_leaf (leaf_set_fuzziness d) e]
              | None => RExc (XOther KAttributeError)
              end
          end
      | BBinary k =>
          match walk rec (Some (cls_of t)) (propagate_name t cx) cs with
          | RExc e => RExc e
          | ROk items => ROk [mk_op k items]
          end
      | BNot =>
          match walk rec None (propagate_name t cx) cs with
          | RExc e => RExc e
          | ROk items => ROk [mk_op EKMustNot items]
          end
      | BGeneric => generic cx
      end in
    match par with
    | None => normal
    | Some p =>
        if flattened t p then walk rec (Some p) cx cs              (* simplify_if_same *)
        else if mixes cfg p (cls_of t) then
          (* raise OrAndAndOnSameLevel(self._get_operator_extract(child)): children[0], children[1] *)
          if Nat.ltb (length cs) 2 then RExc (XOther KIndexError) else RExc XMix
        else normal
    end.

Fixpoint visit (cfg : es_config) (env : es_env) (t : item) (par : option cls) (cx : ectx)
  : eres (list eitem) :=
  let via := visit_via cfg env (visit cfg env) t par cx in
  match t with
  | Term _ _ _ | NoneItem _ => via []
  | SearchField _ _ e | Grp _ _ e | Boost _ e _ _ => via [e]
  | Fuzzy _ x _ _ | Proximity _ x _ _ => via [x]
  | Unary _ _ a | ORange _ _ a _ => via [a]
  | Range _ lo hi _ _ => via [lo; hi]
  | Op _ _ ops => via ops
  end.

(* the E-tree the visit produces for the whole query: self.visit(tree)[0] *)
Definition build_etree_env (cfg : es_config) (env : es_env) (t : item) : eres eitem :=
  match check_nested (ev_chk env) t with
  | Some e => RExc e
  | None =>
      match visit cfg env t None ctx0 with
      | RExc e => RExc e
      | ROk [] => RExc (XOther KIndexError)
      | ROk (e :: _) => ROk e
      end
  end.
Definition build_etree (cfg : es_config) (t : item) : eres eitem :=
  build_etree_env cfg (mk_env cfg) t.

(* ElasticsearchQueryBuilder(cfg...)(tree) *)
Definition build (cfg : es_config) (t : item) : eres json :=
  match build_etree cfg t with
  | RExc e => RExc e
  | ROk e => ejson cfg e
  end.

(* a sequence of calls on one builder instance: the model is a pure function of (cfg, tree) *)
Definition build_calls (cfg : es_config) (ts : list item) : list (eres json) := map (build cfg) ts.
